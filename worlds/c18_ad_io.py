"""C18 adapters, part 5: trajectory / log readers (dump written by a stub LAMMPS peer that
uses the real header writer; HOOMD peers are duck-typed fakes)."""
import numpy as np

from simkit import simio
from worlds.c18_base import Adapter, Ctor, Method, bases, comp, method_op, pick_base, ref

EXTRA = ("vx", "vy", "q")


def _dump_files(w, s=None):
    return sorted(p for p, f in w.files.items() if f["kind"] == "dump" and (s is None or f["snaps"] == s))


def _gen_mk_dump(w, rng):
    from worlds.c18 import DUMPS
    s = pick_base(w, rng, lambda t: t["cell"] == "ortho" and not t.get("reader"))
    if s is None:
        return None
    old = [p for p in _dump_files(w) if w.files[p].get("base") in w.pool]
    if old and rng.random() < 0.35:
        # the run is repeated: same system, same columns, same file name - other numbers in the
        # extra columns and another line order (what a path-keyed cache would get wrong)
        p = rng.choice(old)
        f = w.files[p]
        sib = [n for n in bases(w, lambda t: t["cell"] == "ortho" and not t.get("reader"))
               if all(w.pool[n].tag[k] == w.pool[f["base"]].tag[k] for k in ("ndim", "N", "T", "K"))]
        w.ctx.probe("dump_rewritten_compatibly")
        pick = rng.choice(sib) if sib else f["base"]
        return {"args": {"snapshots": ref(pick), "path": p, "nextra": f["nextra"],
                         "order": rng.randrange(1 << 30), "coord": f["coord"]},
                "meta": {"snaps": w.pool[pick].tag["bundle"]}}
    return {"args": {"snapshots": ref(s), "path": rng.choice(DUMPS), "nextra": rng.randint(0, 3),
                     "order": rng.randrange(1 << 30), "coord": rng.choice(["x", "x", "xu"])},
            "meta": {"snaps": w.pool[s].tag["bundle"]}}


def _call_mk_dump(w, op, kw):
    """Stub LAMMPS peer: frames of the pooled trajectory, header from the real writer."""
    from PyMatterSim.writer.lammps_writer import write_dump_header
    snaps = kw["snapshots"]
    if kw["coord"] == "xu":
        snaps = w.val({"$": op["args"]["snapshots"]["$"] + ".xu"}) if (op["args"]["snapshots"]["$"] + ".xu") in w.pool else snaps
    rng = np.random.default_rng(kw["order"])
    names = list(EXTRA[:kw["nextra"]])
    text = ""
    for sn in snaps.snapshots:
        head = write_dump_header(sn.timestep, sn.nparticle, sn.boxbounds, " ".join(names))
        if kw["coord"] == "xu":
            hl = head.split("\n")
            nd = sn.positions.shape[1]
            hl[8] = "ITEM: ATOMS id type " + " ".join(["xu", "yu", "zu"][:nd]) + (" " + " ".join(names) if names else "")
            head = "\n".join(hl)
        text += head
        extras = rng.normal(0, 2, size=(sn.nparticle, len(names)))
        for k in rng.permutation(sn.nparticle):
            row = [str(k + 1), str(int(sn.particle_type[k]))] + [repr(float(x)) for x in sn.positions[k]] + [f"{x:.6f}" for x in extras[k]]
            text += " ".join(row) + "\n"
    with simio.real_open(kw["path"], "w", encoding="utf-8") as f:
        f.write(text)
    return None


def _out_mk_dump(w, op):
    a = op["args"]
    t = w.pool[a["snapshots"]["$"]].tag
    return [(a["path"], {"kind": "dump", "snaps": t["bundle"], "ndim": t["ndim"], "N": t["N"], "T": t["T"], "K": t["K"],
                         "nextra": a["nextra"], "coord": a["coord"], "base": a["snapshots"]["$"]})]


Adapter("stub.mk_dump", "readers", "writer.lammps_writer.write_dump_header#dump", covers=[], gen=_gen_mk_dump,
        call=_call_mk_dump, outputs=_out_mk_dump, faultable=False, weight=2.0)


def _reader_snaps_tag(w, f):
    t = dict(w.pool[f["base"]].tag)
    t.update(base=(f["coord"] == "x"), reader=True, coord=f["coord"])
    return t


def _exp_reader_snaps(w, op, res):
    f = w.files.get(op["args"].get("file_name") or op["args"].get("filename"))
    if f is None or res is None:
        return []
    return [("", "snaps", res, _reader_snaps_tag(w, f))]


def _exp_held(w, op, res):
    """Whatever a reader returned stays in the session (by reference) and is watched like every
    other snapshots object: a later call must not change it."""
    from PyMatterSim.reader.reader_utils import SingleSnapshot, Snapshots
    if isinstance(res, list) and res and all(isinstance(x, SingleSnapshot) for x in res):
        res = Snapshots(nsnapshots=len(res), snapshots=res)      # same frame objects, harness-side wrapper
    if not isinstance(res, Snapshots):
        return []
    return [("", "snaps", res, {"base": False, "held": True, "coord": "held"})]


def _gen_read_wrapper(w, rng):
    c = _dump_files(w)
    if not c:
        return None
    p = rng.choice(c)
    return {"args": {"file_name": p, "ndim": w.files[p]["ndim"]}, "reads": {p: w.files[p]["src"]}}


Adapter("read_lammps_wrapper", "readers", "reader.lammps_reader_helper.read_lammps_wrapper", gen=_gen_read_wrapper,
        exports=_exp_reader_snaps, prefix="S")


def _gen_read_vector_wrapper(w, rng):
    c = [p for p in _dump_files(w) if w.files[p]["nextra"] >= 1]
    if not c:
        return None
    p = rng.choice(c)
    f = w.files[p]
    first = 3 + f["ndim"]
    cols = sorted(rng.sample(range(first, first + f["nextra"]), rng.randint(1, f["nextra"])))
    return {"args": {"file_name": p, "ndim": f["ndim"], "columnsids": cols}, "reads": {p: f["src"]}}


Adapter("read_lammps_vector_wrapper", "readers", "reader.lammps_reader_helper.read_lammps_vector_wrapper", gen=_gen_read_vector_wrapper, exports=_exp_held, prefix="S")


def _gen_read_center_wrapper(w, rng):
    c = [p for p in _dump_files(w) if w.files[p]["K"] >= 2]
    if not c:
        return None
    p = rng.choice(c)
    f = w.files[p]
    keys = sorted(rng.sample(range(1, f["K"] + 1), rng.randint(1, f["K"] - 1)))
    return {"args": {"file_name": p, "ndim": f["ndim"], "moltypes": {str(k): i + 1 for i, k in enumerate(keys)}}, "reads": {p: f["src"]}}


def _call_center(w, op, kw):
    from PyMatterSim.reader.lammps_reader_helper import read_lammps_centertype_wrapper
    kw = dict(kw)
    kw["moltypes"] = {int(k): v for k, v in kw["moltypes"].items()}
    return read_lammps_centertype_wrapper(**kw)


Adapter("read_lammps_centertype_wrapper", "readers", "reader.lammps_reader_helper.read_lammps_centertype_wrapper",
        gen=_gen_read_center_wrapper, call=_call_center, exports=_exp_held, prefix="S")


def _gen_handle_reader(kind):
    def gen(w, rng):
        c = _dump_files(w)
        if kind == "vector":
            c = [p for p in c if w.files[p]["nextra"] >= 1]
        if kind == "center":
            c = [p for p in c if w.files[p]["K"] >= 2]
        if not c:
            return None
        p = rng.choice(c)
        f = w.files[p]
        args = {"path": p, "ndim": f["ndim"], "frames": rng.randint(1, f["T"])}
        if kind == "vector":
            args["columnsids"] = [3 + f["ndim"]]
        if kind == "center":
            args["moltypes"] = {"1": 1} if f["K"] == 2 else {"1": 2, "2": 1}
        return {"args": args, "reads": {p: f["src"]}}
    return gen


def _call_handle_reader(kind):
    def call(w, op, kw):
        from PyMatterSim.reader import lammps_reader_helper as h
        out = []
        with open(kw["path"], "r", encoding="utf-8") as f:       # open, read k frames, close
            for _ in range(kw["frames"]):
                if kind == "plain":
                    out.append(h.read_lammps(f, kw["ndim"]))
                elif kind == "vector":
                    out.append(h.read_lammps_vector(f, kw["ndim"], list(kw["columnsids"])))
                else:
                    out.append(h.read_lammps_centertype(f, kw["ndim"], {int(k): v for k, v in kw["moltypes"].items()}))
        return out
    return call


Adapter("read_lammps", "readers", "reader.lammps_reader_helper.read_lammps", gen=_gen_handle_reader("plain"), call=_call_handle_reader("plain"), exports=_exp_held, prefix="S")
Adapter("read_lammps_vector", "readers", "reader.lammps_reader_helper.read_lammps_vector", gen=_gen_handle_reader("vector"),
        call=_call_handle_reader("vector"), exports=_exp_held, prefix="S")
Adapter("read_lammps_centertype", "readers", "reader.lammps_reader_helper.read_lammps_centertype", gen=_gen_handle_reader("center"),
        call=_call_handle_reader("center"), exports=_exp_held, prefix="S")


def _gen_read_additions(w, rng):
    c = [p for p in _dump_files(w) if w.files[p]["nextra"] >= 1]
    if not c:
        return None
    p = rng.choice(c)
    f = w.files[p]
    return {"args": {"dumpfile": p, "ncol": 2 + f["ndim"] + rng.randrange(f["nextra"])}, "reads": {p: f["src"]},
            "meta": {"snaps": f["snaps"]}}


def _exp_additions(w, op, res):
    return [("", "arr", res, {"role": "condition", "shape": "TN", "dtype": "float", "snaps": op["meta"]["snaps"], "result": True})]


Adapter("read_additions", "readers", "reader.lammps_reader_helper.read_additions", gen=_gen_read_additions, exports=_exp_additions)


# ------------------------------------------------------------------------- DumpReader ----

def _gen_dumpreader_init(w, rng):
    c = _dump_files(w)
    if not c:
        return None
    p = rng.choice(c)
    f = w.files[p]
    kind = rng.choice(["LAMMPS", "LAMMPS", "LAMMPSVECTOR", "LAMMPSCENTER"])
    args = {"filename": p, "ndim": f["ndim"], "filetype": kind}
    if kind == "LAMMPSVECTOR":
        if f["nextra"] < 1:
            kind = args["filetype"] = "LAMMPS"
        else:
            args["columnsids"] = [3 + f["ndim"]]
    if kind == "LAMMPSCENTER":
        if f["K"] < 2:
            kind = args["filetype"] = "LAMMPS"
        else:
            args["moltypes"] = {"1": 1}
    if kind == "LAMMPS" and rng.random() < w.swarm["p_default"]:
        args.pop("filetype")
    return {"args": args, "reads": {p: f["src"]}, "meta": {"filetype": kind, "path": p}}


def _call_dumpreader_init(w, op, kw):
    from PyMatterSim.reader.dump_reader import DumpReader
    from PyMatterSim.reader.reader_utils import DumpFileType
    kw = dict(kw)
    if "filetype" in kw:
        kw["filetype"] = DumpFileType[kw["filetype"]]
    if "moltypes" in kw:
        kw["moltypes"] = {int(k): v for k, v in kw["moltypes"].items()}
    return DumpReader(**kw)


Ctor("DumpReader.init", "readers", "reader.dump_reader.DumpReader", "DumpReader", gen=_gen_dumpreader_init,
     call=_call_dumpreader_init, faultable=False)


def _call_read_onefile(w, op, obj, kw):
    from PyMatterSim.reader import dump_reader
    saved = dump_reader.time
    ticks = iter([1000.0, 1000.5])
    dump_reader.time = lambda: next(ticks, 1001.0)        # the clock seam: virtual time
    try:
        obj.read_onefile()
    finally:
        dump_reader.time = saved
    return obj.snapshots


def _exp_read_onefile(w, op, res):
    tag = w.pool[op["obj"]].tag
    if tag["filetype"] != "LAMMPS" or tag["path"] not in w.files:
        return _exp_held(w, op, res)
    return [("", "snaps", res, _reader_snaps_tag(w, w.files[tag["path"]]))]


Method("DumpReader.read_onefile", "readers", "reader.dump_reader.DumpReader.read_onefile", "DumpReader", "read_onefile",
       gen=lambda w, rng: method_op(w, rng, "DumpReader", rereads=True), call=_call_read_onefile, exports=_exp_read_onefile,
       rereads=True, prefix="S")


# -------------------------------------------------------------------------- HOOMD, log ----

def _gen_gsd(dcd):
    def gen(w, rng):
        ndim = rng.choice([2, 3])
        return {"args": {"recipe": {"subseed": rng.randrange(1 << 40), "ndim": ndim, "N": rng.randint(2, 9), "T": rng.randint(1, 3),
                                    "K": rng.randint(1, 3), "nvary": (not dcd) and rng.random() < 0.3, "grow": (not dcd) and rng.random() < 0.2,
                                    "share_typeid": rng.random() < 0.4, "boxvary": rng.random() < 0.3}, "ndim": ndim}}
    return gen


def _call_gsd(dcd):
    def call(w, op, kw):
        from PyMatterSim.reader import gsd_reader_helper as g
        from worlds.c19 import FakeDCD, FakeTrajectory, make_hoomd
        frames, xyz, lengths = make_hoomd(kw["recipe"])
        if dcd:
            return g.read_gsd_dcd(FakeTrajectory(frames), FakeDCD(xyz, lengths), kw["ndim"])
        return g.read_gsd(FakeTrajectory(frames), kw["ndim"])
    return call


Adapter("read_gsd", "readers", "reader.gsd_reader_helper.read_gsd", gen=_gen_gsd(False), call=_call_gsd(False), faultable=False, weight=0.5, exports=_exp_held, prefix="S")
Adapter("read_gsd_dcd", "readers", "reader.gsd_reader_helper.read_gsd_dcd", gen=_gen_gsd(True), call=_call_gsd(True), faultable=False, weight=0.5, exports=_exp_held, prefix="S")


def _gen_log(w, rng):
    return {"args": {"recipe": {"subseed": rng.randrange(1 << 40), "nsec": rng.randint(1, 3), "maxrows": 5,
                                "tail": rng.choice(["none", "none", "full-rows", "partial-row"]), "nonfinite": rng.random() < 0.3,
                                "unicode": rng.random() < 0.3, "crlf": rng.random() < 0.15,
                                "crashed": [0] if rng.random() < 0.2 else []},
                     "filename": rng.choice(["log_a.lammps", "log_b.lammps"])}}


def _call_log(w, op, kw):
    from PyMatterSim.reader.simulation_log import read_lammpslog
    from worlds.c19 import make_log
    text = make_log(kw["recipe"])[0]
    with simio.real_open(kw["filename"], "w", encoding="utf-8", newline="") as f:      # stub LAMMPS peer
        f.write(text)
    return read_lammpslog(kw["filename"])


Adapter("read_lammpslog", "readers", "reader.simulation_log.read_lammpslog", gen=_gen_log, call=_call_log, weight=0.5)


# ------------------------------------------- HOOMD files through the library's wrappers ----
# (gsd / mdtraj are stub modules, see simkit/peers.py; the stub HOOMD process writes the files)

GSD_PATHS = ("hoomd/run_a.gsd", "hoomd/run_b.gsd", "data.v1/run.gsd")


def _gen_mk_gsd(w, rng):
    ndim = rng.choice([2, 3])
    return {"args": {"path": rng.choice(GSD_PATHS), "dcd": rng.random() < 0.6,
                     "recipe": {"subseed": rng.randrange(1 << 40), "ndim": ndim, "N": rng.randint(2, 9), "T": rng.randint(1, 4),
                                "K": rng.randint(1, 3), "share_typeid": rng.random() < 0.5, "boxvary": rng.random() < 0.3}}}


def _call_mk_gsd(w, op, kw):
    import os
    from simkit import peers
    from worlds.c19 import make_hoomd
    frames, xyz, lengths = make_hoomd(kw["recipe"])
    d = os.path.dirname(kw["path"])
    if d:
        os.makedirs(d, exist_ok=True)
    peers.write_gsd(kw["path"], frames)
    if kw["dcd"]:
        peers.write_dcd(kw["path"][:-3] + "dcd", xyz, lengths)
    return None


def _out_mk_gsd(w, op):
    a = op["args"]
    out = [(a["path"], {"kind": "gsd", "ndim": a["recipe"]["ndim"], "dcd": a["dcd"], "snaps": None})]
    if a["dcd"]:
        out.append((a["path"][:-3] + "dcd", {"kind": "dcd", "snaps": None}))
    return out


Adapter("stub.mk_gsd", "readers", "reader.gsd_reader_helper#stub-hoomd-process", covers=[], gen=_gen_mk_gsd,
        call=_call_mk_gsd, outputs=_out_mk_gsd, faultable=False, weight=1.0)


def _gsd_files(w, dcd):
    out = []
    for p, f in sorted(w.files.items()):
        if f["kind"] == "gsd" and (not dcd or (f["dcd"] and p[:-3] + "dcd" in w.files and w.files[p[:-3] + "dcd"]["src"] == f["src"])):
            out.append(p)
    return out


def _gen_gsd_wrapper(dcd):
    def gen(w, rng):
        c = _gsd_files(w, dcd)
        if not c:
            return None
        p = rng.choice(c)
        reads = {p: w.files[p]["src"]}
        if dcd:
            reads[p[:-3] + "dcd"] = w.files[p]["src"]
        return {"args": {"file_name": p, "ndim": w.files[p]["ndim"]}, "reads": reads}
    return gen


Adapter("read_gsd_wrapper", "readers", "reader.gsd_reader_helper.read_gsd_wrapper", gen=_gen_gsd_wrapper(False),
        exports=_exp_held, prefix="S")
Adapter("read_gsd_dcd_wrapper", "readers", "reader.gsd_reader_helper.read_gsd_dcd_wrapper", gen=_gen_gsd_wrapper(True),
        exports=_exp_held, prefix="S")


def _gen_dumpreader_gsd(w, rng):
    dcd = rng.random() < 0.5
    c = _gsd_files(w, dcd)
    if not c:
        return None
    p = rng.choice(c)
    kind = "GSD_DCD" if dcd else "GSD"
    reads = {p: w.files[p]["src"]}
    if dcd:
        reads[p[:-3] + "dcd"] = w.files[p]["src"]
    return {"args": {"filename": p, "ndim": w.files[p]["ndim"], "filetype": kind}, "reads": reads,
            "meta": {"filetype": kind, "path": p}}


Ctor("DumpReader.init_gsd", "readers", "reader.dump_reader.DumpReader#gsd", "DumpReader", covers=[], gen=_gen_dumpreader_gsd,
     call=_call_dumpreader_init, faultable=False, weight=0.6)
