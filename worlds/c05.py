"""World C05: neighbour-list producers -> disk -> sequential reader.

Actors: a producer client (real Nnearests / cutoffneighbors / cutoffneighbors_particletype),
a stub peer writing weights files in the documented format, and reader clients that share
open handles and call the real read_neighbors frame by frame with a per-call Nmax.
"""
import os

import numpy as np

from simkit import simio
from simkit.engine import Refuse, Violation
from simkit.worldbase import BUFS, CHUNKS, LINE_FAULTS, WorldBase, lib_logging
from worlds.common import Config

PATHS = ("neighborlist.dat", "nl_a.dat", "nl_b.dat", "w_a.dat")
PRODUCERS = ("Nnearests", "cutoff", "cutoff_types")
EXACT_RC = (1.0, 2.0, 3.0, 5.0)


def parse_frames(path, nparticle):
    """Independent parse of a neighbour / weights file -> list of frames, each a list of
    (id, cn, items) in file row order; raises ValueError when the layout is broken."""
    with simio.real_open(path, "r", encoding="utf-8") as f:
        lines = f.read().split("\n")
    if lines and lines[-1] == "":
        lines.pop()
    frames = []
    i = 0
    per_frame = nparticle if isinstance(nparticle, (list, tuple)) else None
    while i < len(lines):
        if per_frame is not None:
            if len(frames) >= len(per_frame):
                raise ValueError(f"more than {len(per_frame)} frames in the file")
            nparticle = per_frame[len(frames)]
        if not lines[i].split():          # blank separator lines are tolerated by the reader? no:
            raise ValueError(f"blank line {i}")
        head = lines[i].split()
        if head[:2] != ["id", "cn"]:
            raise ValueError(f"line {i}: expected a frame header, got {lines[i][:40]!r}")
        rows = []
        for k in range(nparticle):
            j = i + 1 + k
            if j >= len(lines):
                raise ValueError("file ends inside a frame")
            it = lines[j].split()
            if len(it) < 2:
                raise ValueError(f"line {j}: short row")
            cn = int(it[1])
            if len(it) != 2 + cn:
                raise ValueError(f"line {j}: cn={cn} but {len(it) - 2} items")
            rows.append((int(it[0]), cn, it[2:]))
        frames.append((head, rows))
        i += 1 + nparticle
    return frames


def expected_read(rows, nparticle, nmax, weights):
    """What the property says the reader returns for one frame."""
    arr = np.zeros((nparticle, nmax + 1))
    for pid, cn, items in rows:
        k = min(cn, nmax)
        arr[pid - 1, 0] = k
        vals = [float(x) for x in items[:k]]
        arr[pid - 1, 1:1 + k] = vals if weights else [v - 1 for v in vals]
    width = min(int(arr[:, 0].max()), nmax) + 1
    arr = arr[:, :width]
    if not weights:
        arr = arr.astype(np.int32)
    return arr


_CCACHE = {}


def cached_config(rec):
    """Config(rec), remembered for the (expensive) large systems: built once for the margin
    test of the generator and once more when the operation executes."""
    if not rec.get("huge"):
        return Config(rec)
    key = repr(sorted(rec.items()))
    if key not in _CCACHE:
        _CCACHE.clear()
        _CCACHE[key] = Config(rec)
    return _CCACHE[key]


class World(WorldBase):
    prop = "C05"

    @staticmethod
    def make_swarm(rng, batch):
        sw = {
            "nops": rng.randint(8, 30),
            "chunk": rng.choice(CHUNKS),
            "buf": rng.choice(BUFS),
            "paths": rng.sample(PATHS, rng.randint(2, 4)),
            "producers": rng.sample(PRODUCERS, rng.randint(1, 3)),
            "p_exact": rng.choice([0.0, 0.3, 0.7]),
            "p_default_args": rng.choice([0.0, 0.3]),
            "maxN": rng.choice([6, 12, 24, 40, 40, 130, 130]),
            "maxT": rng.randint(1, 3),
            "p_env": rng.choice([0.0, 0.1, 0.3]),
            "p_thread": rng.choice([0.0, 0.0, 0.2]),
            "p_nest": rng.choice([0.0, 0.1, 0.3]),
            "huge": rng.random() < float(os.environ.get("VERIF_C05_HUGE", "0.002" if os.environ.get("VERIF_TIER", "quick") == "quick" else "0.006")),   # one frame with > 4096 particles
            "faults": [],
            "hold_max": 0,
        }
        if sw["huge"]:
            sw["nops"] = min(sw["nops"], 8)
        if batch == "fault":
            kinds = ["interrupt", "oserror_write", "short_write", "short_read", "oserror_read", "interrupt_line", "alloc_line"]
            sw["faults"] = rng.sample(kinds, rng.randint(1, 4))
            sw["hold_max"] = rng.choice([0, 1, 3])
            sw["p_fault"] = rng.choice([0.15, 0.3])
            sw["chunk"] = rng.choice(CHUNKS[:4])
            sw["buf"] = rng.choice(BUFS[:4])
        return sw

    def __init__(self, ctx, swarm):
        super().__init__(ctx, swarm)
        self.configs = {}     # name -> Config
        self.files = {}       # path -> dict(cfg, kind, frames(list of rows), weights, gen)
        self.gen_no = {}      # path -> generation counter
        self.handles = {}     # hid -> dict(path, gen, cursor, f, stale)
        self.next_h = 0
        self.next_c = 0
        self.delivered = []   # (array as returned, expected copy, description, tag) of recent reads

    # ------------------------------------------------------------------ generation ----
    def gen(self, rng):
        sw = self.swarm
        if self.due():
            return {"op": "release"}
        if not self.configs:
            return self.gen_config(rng)
        live = [p for p in self.files if p in self.acked]
        readable = [h for h, d in self.handles.items() if not d["stale"]
                    and d["cursor"] < self.configs[self.files[d["path"]]["cfg"]].T]
        choices = []
        if len(self.configs) < 3:
            choices += ["mk_config"]
        choices += ["produce"] * 3
        if live:
            choices += ["open_reader"] * 3
            if any(not self.files[p]["weights"] for p in live):
                choices += ["stub_weights"]
        if readable:
            choices += ["read_frame"] * 8 + ["skip_frame"]
        if self.handles:
            choices += ["close"]
        if sw["faults"] and self.held:
            choices += ["release"]
        if live and any(k in LINE_FAULTS for k in sw["faults"]):
            choices += ["read_sweep"] * 2
        kind = rng.choice(choices)
        if kind == "read_sweep":
            return self.gen_read_sweep(rng, live)
        if self.held and rng.random() < 0.5:
            # a client retries the cancelled call: same path, while the old exception is alive
            op = self.gen_produce(rng, path=self.held[-1][2])
            if op is not None:
                return op
        if kind == "mk_config":
            return self.gen_config(rng)
        if kind == "produce":
            return self.gen_produce(rng)
        if kind == "stub_weights":
            src = rng.choice(sorted(p for p in live if not self.files[p]["weights"]))
            path = rng.choice(sw["paths"])
            if path == src:
                return self.gen_produce(rng)
            op = {"op": "stub_weights", "src": src, "path": path, "order": rng.randrange(1 << 30)}
            if rng.random() < 0.4:
                # a peer that lists the same neighbours with its rows in its own (spatial block)
                # order, as voro++ does: the id column, not the row number, says whose row it is
                op["nl"] = True
            if rng.random() < 0.3:
                # text details of files written by other tools
                op["text"] = rng.choice(["crlf", "trailing-blank", "no-final-newline", "tabs"])
            return op
        if kind == "open_reader":
            return {"op": "open_reader", "path": rng.choice(sorted(live))}
        if kind == "read_frame":
            h = rng.choice(sorted(readable))
            d = self.handles[h]
            rows = self.files[d["path"]]["frames"][d["cursor"]]
            maxcn = max(r[1] for r in rows)
            pool = list(range(1, maxcn + 3)) + [200, None]
            if rng.random() < 0.4:
                # the interesting requested maxima: around the largest coordination number, the
                # default, and values around which a buffer might be sized
                pool = [max(1, maxcn - 1), maxcn, maxcn + 1, 200, None, 65, 100, 129]
            op = {"op": "read_frame", "h": h, "nmax": rng.choice(pool)}
            fk = [k for k in sw["faults"] if k in ("short_read", "oserror_read", "interrupt", "interrupt_line", "alloc_line")]
            cfg = self.configs[self.files[d["path"]]["cfg"]]
            if fk and rng.random() < sw.get("p_fault", 0):
                op["fault"] = {"kind": rng.choice(fk), "at": rng.randint(1, cfg.N + 1)}
                if op["fault"]["kind"] in LINE_FAULTS:
                    # between two source lines of the reader (about seven per row; no dry run: a
                    # forked child would share the handle's file offset with this process)
                    op["fault"]["at"] = rng.randint(1, 7 * cfg.Ns[d["cursor"]] + 12)
            else:
                self.gen_env(rng, op)
                others = sorted(x for x in readable if x != h)
                if others and rng.random() < sw.get("p_nest", 0.0):
                    # another client reads a frame from its own handle while this read is inside an
                    # I/O call; preferably a frame of the same size with the same requested maximum
                    same = [x for x in others if self.configs[self.files[self.handles[x]["path"]]["cfg"]].N == cfg.N]
                    h2 = rng.choice(same if same and rng.random() < 0.7 else others)
                    inner = {"op": rng.choice(["read_frame", "read_frame", "skip_frame"]), "h": h2}
                    if inner["op"] == "read_frame":
                        inner["nmax"] = op["nmax"] if rng.random() < 0.7 else rng.choice(pool)
                    op["nest"] = {"at": rng.randint(1, cfg.Ns[d["cursor"]] + 1), "op": inner}
            return op
        if kind == "skip_frame":
            return {"op": "skip_frame", "h": rng.choice(sorted(readable))}
        if kind == "close":
            return {"op": "close", "h": rng.choice(sorted(self.handles))}
        if kind == "release":
            return {"op": "release", "all": True}
        raise AssertionError(kind)

    def gen_read_sweep(self, rng, live):
        sw = self.swarm
        a = rng.choice(sorted(live))
        ca = self.configs[self.files[a]["cfg"]]
        ta = rng.randrange(ca.T)
        n = ca.Ns[ta]
        # the frame read afterwards: preferably another file / frame with the same particle number
        cands = [(p, t) for p in sorted(live) for t in range(self.configs[self.files[p]["cfg"]].T)
                 if self.configs[self.files[p]["cfg"]].Ns[t] == n]
        other = [c for c in cands if c != (a, ta)]
        b, tb = rng.choice(other if other and rng.random() < 0.85 else cands)
        maxcn = max([r[1] for r in self.files[a]["frames"][ta]] + [r[1] for r in self.files[b]["frames"][tb]])
        nmax = rng.choice([maxcn, maxcn + 1, 200, None, max(1, maxcn - 1), 65])
        nln = 7 * n + 14
        thorough = os.environ.get("VERIF_TIER", "quick") != "quick"
        every = nln <= (320 if thorough else 60)
        m = nln if every else rng.choice([40, 80] if thorough else [12, 24, 40])
        ats = list(range(1, nln + 1)) if every else sorted({1 + (k * nln) // m + rng.randrange(max(1, nln // m)) for k in range(m)})
        return {"op": "read_sweep", "a": a, "ta": ta, "b": b, "tb": tb, "nmax": nmax, "ats": [min(nln, x) for x in ats],
                "exc": rng.choice([k for k in sw["faults"] if k in LINE_FAULTS])}

    def gen_config(self, rng):
        sw = self.swarm
        if sw.get("huge") and not any(c.huge for c in self.configs.values()):
            for _try in range(20):
                ndim = rng.choice([2, 3])
                rec = {"ndim": ndim, "exact": False, "N": rng.randint(4100, 4700), "T": 1, "K": rng.randint(1, 2),
                       "cell": rng.choice(["ortho", "tri"]), "layout": rng.choice(["droplet", "droplet", "random"]),
                       "ppp": [rng.choice([1, 1, 1, 0]) for _ in range(ndim)], "cells": "const", "nvary": False, "tvary": False,
                       "grow": False, "vanish": False, "huge": True, "subseed": rng.randrange(1 << 40)}
                if cached_config(rec).margins_ok():
                    self.ctx.probe("config_huge")
                    return {"op": "mk_config", "name": f"c{self.next_c}", "recipe": rec}
                self.ctx.probe("regen_margin")
        for _try in range(200):
            ndim = rng.choice([2, 3])
            exact = rng.random() < sw["p_exact"]
            N = rng.randint(3, sw["maxN"])
            if rng.random() < 0.04:
                N = rng.choice([1, 2])                # one or two particles
            if exact:
                N = min(N, 30)
            rec = {
                "ndim": ndim, "exact": exact, "N": N, "T": rng.randint(1, sw["maxT"]),
                "K": rng.randint(1, min(3, N)),
                "cell": "ortho" if exact else rng.choice(["ortho", "tri"]),
                "layout": rng.choice(["random", "lattice", "cluster"]),
                "ppp": [rng.choice([1, 1, 1, 0]) for _ in range(ndim)],
                "cells": rng.choice(["const", "const", "vary", "vary", "shear", "cycle"]),
                "nvary": rng.random() < 0.25,
                "tvary": rng.random() < 0.2,
                "grow": rng.random() < 0.15,
                "vanish": rng.random() < 0.4,
                "int_cell": exact and rng.random() < 0.35,
                "halftilt": exact and rng.random() < 0.25,
                "subseed": rng.randrange(1 << 40),
            }
            if not exact and rng.random() < 0.15:
                # far from the origin and / or stored in single precision
                rec["f32"] = rng.random() < 0.5
                rec["far"] = rng.choice([0.0, 1e2, 1e3] if rec["f32"] else [1e5, 1e7, 1e8])
                rec["N"] = min(rec["N"], 14)
            c = Config(rec)
            if c.margins_ok():
                name = f"c{self.next_c}"
                return {"op": "mk_config", "name": name, "recipe": rec}
            self.ctx.probe("regen_margin")
        raise RuntimeError("could not generate a configuration with margins")

    def gen_produce(self, rng, path=None):
        sw = self.swarm
        cname = rng.choice(sorted(self.configs))
        cfg = self.configs[cname]
        kinds = list(sw["producers"])
        kind = rng.choice(kinds)
        if cfg.huge:
            # (only the nearest two dozen distances of a particle are separated well enough to judge)
            return {"op": "produce", "kind": "Nnearests", "cfg": cname, "path": path or rng.choice(sw["paths"]),
                    "n": rng.choice([3, 12, 12, 16]), "default_ppp": False, "default_path": False}
        op = {"op": "produce", "kind": kind, "cfg": cname, "path": path or rng.choice(sw["paths"])}
        if kind == "Nnearests":
            if cfg.exact or cfg.Nmin < 2:
                kind = op["kind"] = "cutoff"     # ties make N-nearest undecidable there; a lone particle has no nearest
            else:
                top = cfg.Nmin - 1
                op["n"] = rng.choice([x for x in [1, 2, top, top, max(1, top - 1)] + list(range(1, top + 1)) if x <= top])
        def by_target():
            # a cutoff that gives some particle exactly k neighbours, k uniform over 1..N-2: every
            # coordination number (and every digit / power-of-two boundary) is as likely as any other
            D = cfg.tables[rng.randrange(cfg.T)][0]
            d = sorted(D[rng.randrange(D.shape[0])])[1:]
            k = rng.randint(1, max(1, len(d) - 1))
            return round(0.5 * (d[k - 1] + d[k]), 9) if k < len(d) else round(d[-1] * 1.01, 9)

        if kind == "cutoff":
            for _try in range(100):
                if cfg.exact:
                    rc = rng.choice(EXACT_RC if not cfg.symmetric_only else (2.5, 4.0, 4.25, 4.5, 5.0))
                elif rng.random() < 0.06:
                    # so short that no particle has any neighbour in any frame
                    dmin = min(float(np.min(D[0] + np.eye(D[0].shape[0]) * 1e9)) if D[0].shape[0] > 1 else 1.0 for D in cfg.tables)
                    rc = round(0.5 * dmin, 9)
                elif rng.random() < 0.5 and cfg.N >= 4:
                    rc = by_target()
                else:
                    rc = round(rng.uniform(0.15, 0.75) * cfg.Lmin, 6)
                if cfg.cutoff_ok(rc):
                    break
                self.ctx.probe("regen_cutoff")
            op["rc"] = rc
        if kind == "cutoff_types":
            K = cfg.K
            for _try in range(100):
                if cfg.exact:
                    M = [[rng.choice(EXACT_RC) for _ in range(K)] for _ in range(K)]
                elif rng.random() < 0.4 and cfg.N >= 4:
                    M = [[by_target() for _ in range(K)] for _ in range(K)]
                else:
                    M = [[round(rng.uniform(0.15, 0.75) * cfg.Lmin, 6) for _ in range(K)] for _ in range(K)]
                if cfg.cutoff_ok(M):
                    break
                self.ctx.probe("regen_cutoff")
            op["rc"] = M
        dflt = rng.random() < sw["p_default_args"]
        op["default_ppp"] = bool(dflt and cfg.ndim == 3 and all(cfg.ppp == 1))
        op["default_path"] = bool(dflt and op["path"] == "neighborlist.dat")
        fk = [k for k in sw["faults"] if k in ("interrupt", "oserror_write", "short_write", "interrupt_line", "alloc_line")]
        if fk and rng.random() < sw.get("p_fault", 0) * 2:
            fkind = rng.choice(fk)
            if fkind in LINE_FAULTS:
                # cancelled (or out of memory) between two source lines of the producer
                nln = self.dry_lines(lambda: self.invoke_producer(op))
                op["fault"] = {"kind": fkind, "at": rng.randint(1, max(1, nln)), "hold": rng.randint(0, sw["hold_max"])}
                self.ctx.probe("dry_runs_lines")
            else:
                nev = self.dry_events(lambda: self.invoke_producer(op))
                op["fault"] = {"kind": fkind, "at": self.pick_fault_event(rng, nev),
                               "hold": rng.randint(0, sw["hold_max"])}
                if fkind == "oserror_write" and rng.random() < 0.5:
                    op["fault"]["persist"] = True        # the disk stays full for the rest of the call
                self.ctx.probe("dry_runs")
        else:
            self.gen_env(rng, op)
            readable = sorted(h for h, d in self.handles.items() if not d["stale"] and d["path"] != op["path"]
                              and d["cursor"] < self.configs[self.files[d["path"]]["cfg"]].T)
            if readable and rng.random() < sw.get("p_nest", 0.0):
                h2 = rng.choice(readable)
                rows = self.files[self.handles[h2]["path"]]["frames"][self.handles[h2]["cursor"]]
                inner = {"op": "read_frame", "h": h2, "nmax": rng.choice([max(r[1] for r in rows), 200, None, 2])}
                op["nest"] = {"at": rng.randint(1, 3 * cfg.N), "op": inner}
        return op

    def gen_env(self, rng, op):
        """What the calling client did to its process before the call: changed numpy's print
        options (people do, to read their own output), or started a worker thread for the call."""
        sw = self.swarm
        if rng.random() < sw.get("p_env", 0.0):
            op["printopts"] = {"threshold": rng.choice([5, 50, 1000]), "linewidth": rng.choice([20, 75, 200]),
                               "edgeitems": rng.choice([1, 3]), "precision": rng.choice([3, 8])}
        if rng.random() < sw.get("p_thread", 0.0):
            op["thread"] = True
        if op.get("printopts") and rng.random() < 0.4:
            op["printopts_scoped"] = True          # `with np.printoptions(...)`: restored after the call
        if rng.random() < sw.get("p_env", 0.0) * 0.7:
            op["loglevel"] = rng.choice(["DEBUG", "DEBUG", "INFO"])

    def client(self, op, fn):
        """fn as the client calls it: after its own changes to the process, maybe from a worker thread."""
        po = op.get("printopts")

        def run():
            if op.get("loglevel"):
                self.ctx.probe("client_switched_library_logging_on")
                with lib_logging(op["loglevel"]):
                    return run2()
            return run2()

        def run2():
            if po and op.get("printopts_scoped"):
                self.ctx.probe("client_changed_numpy_printoptions_scoped")
                with np.printoptions(**po):
                    return fn()
            if po:
                np.set_printoptions(**po)
                self.ctx.probe("client_changed_numpy_printoptions")
            return fn()
        if op.get("thread"):
            self.ctx.probe("call_from_worker_thread")
            return self.in_thread(run)
        return run

    # ------------------------------------------------------------------- execution ----
    def invoke_producer(self, op):
        from PyMatterSim.neighbors import calculate_neighbors as cn
        cfg = self.configs[op["cfg"]]
        snaps = cfg.snapshots()
        kw = {}
        if not op.get("default_ppp"):
            kw["ppp"] = cfg.ppp.copy()
        if not op.get("default_path"):
            kw["fnfile"] = op["path"]
        if op["kind"] == "Nnearests":
            return cn.Nnearests(snaps, N=op["n"], **kw)
        if op["kind"] == "cutoff":
            return cn.cutoffneighbors(snaps, r_cut=op["rc"], **kw)
        if op["kind"] == "cutoff_types":
            return cn.cutoffneighbors_particletype(snaps, r_cut=np.array(op["rc"], dtype=float), **kw)
        raise ValueError(op["kind"])

    def apply(self, op):
        k = op["op"]
        self.tick_held()
        return getattr(self, "do_" + k)(op)

    def do_mk_config(self, op):
        c = cached_config(op["recipe"])
        if not c.margins_ok():
            raise Refuse("margins")
        name = op["name"]
        self.configs[name] = c
        self.next_c += 1
        r = op["recipe"]
        self.ctx.probe("config_exact" if c.exact else f"config_{r['cell']}")
        return f"{name} N={c.N} T={c.T}"

    def _stale_handles(self, path):
        for d in self.handles.values():
            if d["path"] == path and not d["stale"]:
                d["stale"] = True
                self.ctx.probe("rewrite_with_live_reader")

    def do_produce(self, op):
        if op["cfg"] not in self.configs:
            raise Refuse("no config")
        cfg = self.configs[op["cfg"]]
        kind, path = op["kind"], op["path"]
        if kind == "Nnearests" and not (1 <= op["n"] <= cfg.Nmin - 1):
            raise Refuse("N out of range")
        if kind == "cutoff_types" and len(op["rc"]) != cfg.K:
            raise Refuse("matrix shape")
        if kind != "Nnearests" and not cfg.cutoff_ok(op["rc"]):
            raise Refuse("cutoff margin")
        if op.get("default_ppp") and not (cfg.ndim == 3 and all(cfg.ppp == 1)):
            raise Refuse("default mask does not describe this configuration")
        if op.get("default_path") and path != "neighborlist.dat":
            raise Refuse("default path")
        fault = op.get("fault")
        rewrite = path in self.files
        if rewrite:
            self.ctx.probe("rewrite")
            if any(h[2] == path for h in self.held):
                self.ctx.probe("rewrite_while_failed_call_held")
        # from the moment the call starts the old content is gone
        self._stale_handles(path)
        self.unack(path)
        self.files.pop(path, None)
        if fault is None and op.get("nest"):
            fault = self.nest_plan(op["nest"])
        res, exc, (nev, dig, fired) = self.call(self.client(op, lambda: self.invoke_producer(op)), fault)
        self.raise_nested()
        tag = f"produce:{kind}"
        if exc is not None:
            if fired and fired[0] in ("interrupt", "oserror_write") + LINE_FAULTS:
                # the cancelled / failed call: its file is un-acknowledged, nothing is judged
                hold = fault.get("hold", 0)
                if hold > 0:
                    self.hold_last(hold, path)
                else:
                    self.drop_last()
                self.ctx.probe("producer_failed_by_fault")
                return f"{path} failed {exc[0]} ev={nev}"
            self.drop_last()
            raise Violation(f"C05/producer-raised:{tag}", f"{exc[0]}: {exc[1]} for {self._describe(op)}")
        if res is not None:
            self.ctx.probe("producer_returned_a_value")        # the property speaks about the file only
        rows = self.judge_file(op, cfg, tag)
        self.gen_no[path] = self.gen_no.get(path, 0) + 1
        self.files[path] = {"cfg": op["cfg"], "kind": kind, "frames": rows, "weights": False,
                            "gen": self.gen_no[path]}
        self.ack(path, tag)
        return f"{path} {kind} ev={nev} io={dig}"

    def _describe(self, op):
        cfg = self.configs[op["cfg"]]
        extra = {k: op[k] for k in ("n", "rc") if k in op}
        return f"{op['kind']} {extra} on N={cfg.N} ndim={cfg.ndim} cell={cfg.recipe['cell']} ppp={cfg.ppp.tolist()}"

    def judge_file(self, op, cfg, tag):
        """File-level half of the property: right particles, nearest first, no self,
        symmetric for a global cutoff."""
        path, kind = op["path"], op["kind"]
        try:
            frames = parse_frames(path, list(cfg.Ns))
        except (ValueError, IndexError, FileNotFoundError) as e:
            raise Violation(f"C05/file-layout:{tag}", f"{e} in {path} for {self._describe(op)}")
        if len(frames) != cfg.T:
            raise Violation(f"C05/file-frames:{tag}", f"{len(frames)} frames written, trajectory has {cfg.T}")
        out = []
        for t, (head, rows) in enumerate(frames):
            if "neighborlist" not in head:
                raise Violation(f"C05/file-layout:{tag}", f"frame {t} header {head}")
            if kind == "Nnearests":
                exp = cfg.expect_nearest(t, op["n"])
            elif kind == "cutoff":
                exp = cfg.expect_cutoff(t, op["rc"])
            else:
                exp = cfg.expect_cutoff_types(t, op["rc"])
            D = cfg.tables[t][0]
            ids = [r[0] for r in rows]
            if sorted(ids) != list(range(1, cfg.Ns[t] + 1)):
                raise Violation(f"C05/file-ids:{tag}", f"frame {t}: ids {ids[:10]}")
            listed = {}
            for pid, cn, items in rows:
                js = [int(x) for x in items]
                listed[pid] = js
                if pid in js:
                    raise Violation(f"C05/self-listed:{tag}", f"frame {t} particle {pid}: {js}")
                want = exp[pid - 1]
                if cfg.symmetric_only:
                    continue            # which image is "the" minimum one at an exact half-cell tie is not decided here
                if cfg.exact:
                    if sorted(js) != sorted(want):
                        raise Violation(f"C05/frame-content:{tag}",
                                        f"frame {t} particle {pid}: listed {sorted(js)} expected {sorted(want)}; {self._describe(op)}")
                    ds = [D[pid - 1, j - 1] for j in js]
                    if any(b < a for a, b in zip(ds, ds[1:])):
                        raise Violation(f"C05/order:{tag}", f"frame {t} particle {pid}: distances {ds}")
                elif js != want:
                    which = "order" if sorted(js) == sorted(want) else "frame-content"
                    raise Violation(f"C05/{which}:{tag}",
                                    f"frame {t} particle {pid}: listed {js} expected {want}; {self._describe(op)}")
            if kind == "cutoff":
                for i, js in listed.items():
                    for j in js:
                        if i not in listed[j]:
                            raise Violation(f"C05/asymmetric:{tag}", f"frame {t}: {j} in list of {i} but not vice versa")
            out.append(rows)
        if cfg.exact:
            self.ctx.probe("exact_boundary_file")
            if any(any(abs(cfg.tables[t][0][r[0] - 1, int(j) - 1] - v) == 0.0
                       for r in rows for j in r[2]
                       for v in np.ravel(op["rc"])) for t, rows in enumerate(out)):
                self.ctx.probe("pair_exactly_on_cutoff")
        return out

    def do_stub_weights(self, op):
        src, path = op["src"], op["path"]
        if src not in self.files or src not in self.acked or self.files[src]["weights"] or path == src:
            raise Refuse("no source")
        cfg = self.configs[self.files[src]["cfg"]]
        rng = np.random.default_rng(op["order"])
        self._stale_handles(path)
        self.unack(path)
        self.files.pop(path, None)
        frames = []
        # the stub peer writes with plain buffered I/O outside the simulated disk faults
        style = op.get("text")
        eol = "\r\n" if style == "crlf" else "\n"
        sep = "\t" if style == "tabs" else " "
        tail = "  " if style == "trailing-blank" else ""
        nframes = len(self.files[src]["frames"])

        class _W:
            """writes the stub's lines in the chosen text style"""
            def __init__(self, fh):
                self.fh, self.buf = fh, []

            def write(self, text):
                self.buf.append(text)

            def flush_all(self):
                text = "".join(self.buf)
                lines = text.split("\n")[:-1]
                out = eol.join((sep.join(ln.split(" ")) if sep != " " else ln) + tail for ln in lines) + eol
                if style == "no-final-newline":
                    out = out[: -len(eol)]
                self.fh.write(out)
        with simio.real_open(path, "w", encoding="utf-8", newline="") as fh:
            f = _W(fh)
            for rows in self.files[src]["frames"]:
                f.write("id   cn   neighborlist\n" if op.get("nl") else "id   cn   edgelengthlist\n")
                order = rng.permutation(len(rows))
                out = []
                for k in order:
                    pid, cn, items = rows[k]
                    w = list(items) if op.get("nl") else [f"{x:.6f}" for x in rng.uniform(0.01, 3.0, size=cn)]
                    f.write(f"{pid} {cn} " + " ".join(w) + "\n")
                    out.append((pid, cn, w))
                frames.append(out)
            f.flush_all()
            if style:
                self.ctx.probe("stub_file_text_style_" + style)
        self.gen_no[path] = self.gen_no.get(path, 0) + 1
        self.files[path] = {"cfg": self.files[src]["cfg"], "kind": "stub_nl" if op.get("nl") else "weights", "frames": frames,
                            "weights": not op.get("nl"), "gen": self.gen_no[path]}
        self.ack(path, "stub_weights")
        self.ctx.probe("shuffled_neighbour_file_written" if op.get("nl") else "weights_file_written")
        return f"{path} weights of {src}"

    def do_open_reader(self, op):
        path = op["path"]
        if path not in self.files or path not in self.acked:
            raise Refuse("no file")
        res, exc, _ = self.call(lambda: open(path, "r", encoding="utf-8"))
        if exc is not None:
            self.drop_last()
            raise Violation("C05/open-raised:open_reader", f"{exc}")
        h = f"h{self.next_h}"
        self.next_h += 1
        self.handles[h] = {"path": path, "gen": self.files[path]["gen"], "cursor": 0, "f": res, "stale": False}
        if sum(1 for d in self.handles.values() if d["path"] == path and not d["stale"]) > 1:
            self.ctx.probe("two_readers_one_file")
        return f"{h}={path}"

    def do_read_frame(self, op):
        from PyMatterSim.neighbors.read_neighbors import read_neighbors
        h = op["h"]
        d = self.handles.get(h)
        if d is None or d["stale"]:
            raise Refuse("no handle")
        fi = self.files[d["path"]]
        cfg = self.configs[fi["cfg"]]
        if d["cursor"] >= cfg.T:
            raise Refuse("at end")
        nmax = op["nmax"]
        f = d["f"]
        n_t = cfg.Ns[d["cursor"]]
        fn = (lambda: read_neighbors(f, n_t)) if nmax is None else (lambda: read_neighbors(f, n_t, nmax))
        fault = op.get("fault")
        if fault is None and op.get("nest"):
            fault = self.nest_plan(op["nest"])
        res, exc, (nev, dig, fired) = self.call(self.client(op, fn), fault)
        self.raise_nested()
        tag = f"read_frame:{fi['kind']}"
        if exc is not None:
            if fired and fired[0] in ("oserror_read", "interrupt") + LINE_FAULTS:
                # the failed read: the handle's position is unknown from here on
                self.drop_last()
                d["stale"] = True
                self.ctx.probe("reader_failed_by_fault")
                return f"{h} failed {exc[0]}"
            self.drop_last()
            raise Violation(f"C05/reader-raised:{tag}", f"{exc[0]}: {exc[1]} at frame {d['cursor']} of {d['path']} Nmax={nmax}")
        rows = fi["frames"][d["cursor"]]
        eff = 200 if nmax is None else nmax
        want = self._judge_read(res, fi, d["cursor"], nmax, tag, d["path"])
        maxcn = max(r[1] for r in rows)
        if eff < maxcn:
            self.ctx.probe("nmax_truncation")
        if eff == maxcn:
            self.ctx.probe("nmax_equals_maxcn")
        if fi["weights"]:
            self.ctx.probe("weights_branch_read")
        if d["cursor"] > 0:
            self.ctx.probe("read_second_or_later_frame")
        if fired:
            self.ctx.probe("read_correct_under_" + fired[0])
        d["cursor"] += 1
        # the client keeps what it was given: later reads must not change an earlier frame
        self.delivered = (self.delivered + [(res, want, f"frame {d['cursor'] - 1} of {d['path']}", tag)])[-12:]
        return f"{h} t={d['cursor'] - 1} nmax={nmax} ev={nev} io={dig}"

    def _judge_read(self, res, fi, t, nmax, tag, path):
        """The array read_neighbors returned for frame t of a file, against the protocol model."""
        cfg = self.configs[fi["cfg"]]
        n_t = cfg.Ns[t]
        rows = fi["frames"][t]
        eff = 200 if nmax is None else nmax
        want = expected_read(rows, n_t, eff, fi["weights"])
        if not isinstance(res, np.ndarray):
            raise Violation(f"C05/frame-shape:{tag}", f"returned {type(res).__name__}")
        if res.dtype.kind != want.dtype.kind:
            # integers for neighbour lists (they are indices), floats for weights; the width is not pinned
            raise Violation(f"C05/frame-dtype:{tag}", f"dtype {res.dtype}, expected kind of {want.dtype}")
        if res.shape != want.shape:
            raise Violation(f"C05/frame-shape:{tag}",
                            f"shape {res.shape}, expected {want.shape} (Nmax={nmax}, max cn={max(r[1] for r in rows)})")
        if not np.array_equal(res, want):
            bad = np.argwhere(res != want)[0]
            raise Violation(f"C05/frame-read:{tag}",
                            f"frame {t} of {path} Nmax={nmax}: row {bad[0]} col {bad[1]} "
                            f"got {res[bad[0]].tolist()} expected {want[bad[0]].tolist()}")
        return want

    def do_read_sweep(self, op):
        """Crash-point sweep of the reader: a read of frame ta of file a on a private handle is
        cancelled (or runs out of memory) at one instant after the other over its whole
        execution; after each, a complete read of frame tb of file b - same particle number,
        same requested maximum - on another private handle must deliver exactly that frame."""
        from PyMatterSim.neighbors.read_neighbors import read_neighbors
        for k in ("a", "b"):
            if op[k] not in self.files or op[k] not in self.acked:
                raise Refuse("no file")
        fa, fb = self.files[op["a"]], self.files[op["b"]]
        ca, cb = self.configs[fa["cfg"]], self.configs[fb["cfg"]]
        ta, tb, nmax = op["ta"], op["tb"], op["nmax"]
        if ta >= ca.T or tb >= cb.T or ca.Ns[ta] != cb.Ns[tb]:
            raise Refuse("frames do not match any more")
        n = ca.Ns[ta]

        def private(path, cfg, t):
            f = open(path, "r", encoding="utf-8")
            for u in range(t):
                for _ in range(cfg.Ns[u] + 1):
                    f.readline()
            return f

        def read(f):
            return read_neighbors(f, n) if nmax is None else read_neighbors(f, n, nmax)
        tag = f"read_sweep:{fb['kind']}"
        fired_n = 0
        for at in op["ats"]:
            f1 = private(op["a"], ca, ta)
            _res, exc, (_nev, _dig, fired) = self.call(lambda: read(f1), {"kind": op["exc"], "at": at})
            self.drop_last()
            f1.close()
            if exc is not None and not (fired and fired[0] in LINE_FAULTS):
                raise Violation(f"C05/reader-raised:read_sweep:{fa['kind']}", f"{exc[0]}: {exc[1]} at frame {ta} of {op['a']} Nmax={nmax}")
            fired_n += 1 if fired else 0
            f2 = private(op["b"], cb, tb)
            res, exc, _ = self.call(lambda: read(f2))
            self.drop_last()
            f2.close()
            if exc is not None:
                raise Violation(f"C05/reader-raised:{tag}", f"{exc[0]}: {exc[1]} at frame {tb} of {op['b']} Nmax={nmax} after a read cancelled at line {at}")
            self._judge_read(res, fb, tb, nmax, tag, op["b"])
        self.ctx.probe("reader_sweep_points", fired_n)
        return f"{op['a']}[{ta}] x{len(op['ats'])} ({fired_n} fired) then {op['b']}[{tb}] nmax={nmax}"

    def do_skip_frame(self, op):
        """The client steps over a frame itself, with the text API of the very handle it later
        gives to read_neighbors again (header line + one line per particle)."""
        d = self.handles.get(op["h"])
        if d is None or d["stale"]:
            raise Refuse("no handle")
        fi = self.files[d["path"]]
        cfg = self.configs[fi["cfg"]]
        if d["cursor"] >= cfg.T:
            raise Refuse("at end")
        f = d["f"]
        n_t = cfg.Ns[d["cursor"]]

        def skip():
            return [f.readline() for _ in range(n_t + 1)]
        lines, exc, _ = self.call(skip)
        if exc is not None:
            self.drop_last()
            raise Violation("C05/skip-raised:skip_frame", f"{exc}")
        if len(lines) != n_t + 1 or not lines[0].startswith("id") or any(not ln.strip() for ln in lines):
            raise Violation("C05/cursor:skip_frame", f"handle {op['h']} was not at the start of frame {d['cursor']} of {d['path']}: {lines[:1]}")
        d["cursor"] += 1
        self.ctx.probe("frame_skipped_by_client_with_text_api")
        return f"{op['h']} skipped t={d['cursor'] - 1}"

    def do_close(self, op):
        d = self.handles.pop(op["h"], None)
        if d is None:
            raise Refuse("no handle")
        d["f"].close()
        return op["h"]

    def do_release(self, op):
        if not self.held:
            raise Refuse("nothing held")
        n = self.release_all() if op.get("all") else self.release_due()
        return f"released {n}"

    # ------------------------------------------------------------------ bookkeeping ----
    def invariants(self):
        self.check_acked()
        for got, want, what, tag in self.delivered:
            if got.dtype.kind != want.dtype.kind or got.shape != want.shape or not np.array_equal(got, want):
                raise Violation(f"C05/delivered-frame-changed:{tag}",
                                f"the array returned earlier for {what} no longer holds that frame (a later read changed it)")
        for h, d in self.handles.items():
            if not d["stale"] and d["gen"] != self.files[d["path"]]["gen"]:
                raise AssertionError("handle generation bookkeeping")

    def teardown(self):
        for d in self.handles.values():
            try:
                d["f"].close()
            except Exception:
                pass
        self.held = []

    def state_sig(self):
        return (tuple(sorted((p, f["kind"], f["gen"], p in self.acked) for p, f in self.files.items())),
                tuple(sorted((d["path"], d["cursor"], d["stale"]) for d in self.handles.values())),
                len(self.held))

    def interleaving_sig(self, ops):
        out = []
        for o in ops:
            f = o.get("fault")
            n = o.get("nest")
            out.append((o["op"], o.get("kind"), o.get("path"), o.get("h"), bool(o.get("printopts")), bool(o.get("thread")),
                        (n["op"]["op"], n["op"].get("h"), min(n["at"], 20)) if n else None,
                        None if o.get("nmax", 0) is None else min(o.get("nmax", 0), 9),
                        (f["kind"], min(f["at"], 20), f.get("hold")) if f else None))
        return tuple(out)

    def nontrivial(self, ops):
        return sum(1 for o in ops if o["op"] in ("produce", "read_frame", "skip_frame", "stub_weights", "release")) >= 3
