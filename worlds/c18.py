"""World C18: arbitrary call histories over shared snapshots, arrays, default-argument objects,
long-lived analysis objects and files, judged against a history-free clean-room replica.

Actors: two or three simulated analysts issuing calls to every reachable public entry point
of the library (adapters in worlds/c18_adapters.py) on a *shared* pool; stub peers that
write dumps / logs / Voronoi-index files.  Oracles after every operation:

  I1  every array of every pooled snapshot, every pooled array / dict and every mutable
      default-argument object of the package is bit-for-bit what it was when created;
  I2  the returned value (and every file the call wrote) equals, byte for byte, what the
      same call returns in a process forked before the run executed any repository code,
      on inputs rebuilt from their recipes alone; and the call changed no other file;
  I3  a requested output file holds the returned values to the written precision.
"""
import copy
import gc
import inspect
import os
import pickle

import numpy as np
import pandas as pd

from simkit import simio
from simkit.engine import Ctx, HarnessError, Refuse, Violation, canon, h64
from simkit.replica import ReplicaServer
from simkit.worldbase import BUFS, CHUNKS, WorldBase, file_digest, lib_logging

SNAP_FIELDS = ("particle_type", "positions", "boxlength", "boxbounds", "realbounds", "hmatrix")
NL_PATHS = ("neighborlist.dat", "nl_a.dat", "nl_b.dat")
VOR_PREFIXES = ("vor_a", "vor_b")
OUT = {
    "csv": ("out_a.csv", "out_b.csv", "out.v2.csv", "outdir/out_a.csv", "out_T0.45.dat", "out_run1", "OUT_B.CSV"),   # a table is a table whatever its name says
    "npy": ("res_a.npy", "res_b.npy", "res_c", "res.v2", "outdir/res_a.npy"),      # np.save appends .npy to a bare name
    "txt": ("res_a.dat", "res_b.txt", "res_a.npy"),  # .dat / .txt switch on the text branch of boo_3d
    "prefix": ("pre_a", "pre_b", "", "outdir/pre.v2"),
}
DUMPS = ("traj_a.atom", "traj_b.atom")


class quiet_io:
    """Harness-side file access that must not count as simulated I/O."""

    def __enter__(self):
        self.saved = simio.ACTIVE
        simio.ACTIVE = None

    def __exit__(self, *a):
        simio.ACTIVE = self.saved


def dirstate(root):
    out = {}
    for base, _dirs, files in os.walk(root):
        for fn in files:
            p = os.path.join(base, fn)
            out[os.path.relpath(p, root)] = file_digest(p)
    return out


def same_bits(a, b):
    if isinstance(a, np.ndarray):
        if not (isinstance(b, np.ndarray) and a.dtype == b.dtype and a.shape == b.shape):
            return False
        if a.dtype == object:      # bytes of an object array are pointers: compare the elements
            return all(bool(x == y) for x, y in zip(a.ravel(), b.ravel()))
        return np.ascontiguousarray(a).tobytes() == np.ascontiguousarray(b).tobytes()
    if isinstance(a, dict):
        return isinstance(b, dict) and list(a.keys()) == list(b.keys()) and all(same_bits(a[k], b[k]) for k in a)
    if isinstance(a, (list, tuple)):
        return type(a) is type(b) and len(a) == len(b) and all(same_bits(x, y) for x, y in zip(a, b))
    if isinstance(a, float):
        return isinstance(b, float) and (a == b or (a != a and b != b))
    return type(a) is type(b) and a == b


def describe_change(old, new):
    if isinstance(old, np.ndarray) and isinstance(new, np.ndarray):
        if old.dtype != new.dtype or old.shape != new.shape:
            return f"dtype/shape {old.dtype}{old.shape} -> {new.dtype}{new.shape}"
        if old.dtype.kind in "fc":
            with np.errstate(all="ignore"):
                d = np.abs(new - old)
                k = int(np.nanargmax(d)) if d.size else 0
                return f"{int((np.asarray(old != new)).sum())} of {old.size} elements differ, max |delta| = {d.ravel()[k]:.3e} at flat index {k}"
        return f"{int((old != new).sum())} of {old.size} elements differ"
    return f"{old!r} -> {new!r}"[:300]


def snaps_arrays(snaps):
    """-> list of (label, array-or-scalar) for every field of every frame."""
    out = [("nsnapshots", snaps.nsnapshots)]
    for t, s in enumerate(snaps.snapshots):
        out.append((f"[{t}].timestep", s.timestep))
        out.append((f"[{t}].nparticle", s.nparticle))
        for f in SNAP_FIELDS:
            out.append((f"[{t}].{f}", getattr(s, f)))
    return out


def snaps_plain(snaps):
    return [[s.timestep, s.nparticle] + [getattr(s, f) for f in SNAP_FIELDS] for s in snaps.snapshots]


def plain(obj):
    """Result -> nested plain containers that engine.canon understands."""
    from PyMatterSim.reader.reader_utils import SingleSnapshot, Snapshots
    if isinstance(obj, Snapshots):
        return ["Snapshots", obj.nsnapshots, snaps_plain(obj)]
    if isinstance(obj, SingleSnapshot):
        return ["SingleSnapshot", obj.timestep, obj.nparticle] + [getattr(obj, f) for f in SNAP_FIELDS]
    if isinstance(obj, (list, tuple)):
        return [plain(x) for x in obj]
    if isinstance(obj, dict):
        return {k: plain(v) for k, v in obj.items()}
    if type(obj).__module__.startswith("freud"):
        return ["freud." + type(obj).__name__, [float(x) for x in (obj.Lx, obj.Ly, obj.Lz, obj.xy, obj.xz, obj.yz)], bool(obj.is2D)]
    if type(obj).__module__.startswith("sympy"):
        return ["sympy", str(obj)]
    return obj


def obj_state(obj):
    """Constructor-computed / method-updated state of a long-lived analysis object, as plain
    containers (references to the input snapshots are inputs, not state)."""
    from PyMatterSim.reader.reader_utils import Snapshots, SingleSnapshot
    out = {}
    for k in sorted(vars(obj)):
        v = vars(obj)[k]
        if isinstance(v, (Snapshots, SingleSnapshot)):
            continue
        out[k] = plain(v)
    return out


def collect_defaults():
    """Every mutable default-argument object of the package: (label, object)."""
    import importlib
    import pkgutil
    import PyMatterSim
    found = []
    seen = set()
    for m in pkgutil.walk_packages(PyMatterSim.__path__, "PyMatterSim."):
        if m.ispkg:
            continue
        try:
            mod = importlib.import_module(m.name)
        except Exception:  # noqa: BLE001 - a module that cannot import has no reachable defaults
            continue
        fns = []
        for name, o in vars(mod).items():
            if getattr(o, "__module__", None) != m.name:
                continue
            if inspect.isfunction(o):
                fns.append((f"{m.name}.{name}", o))
            elif inspect.isclass(o):
                for mn, mo in vars(o).items():
                    if inspect.isfunction(mo):
                        fns.append((f"{m.name}.{name}.{mn}", mo))
        for label, fn in fns:
            try:
                sig = inspect.signature(fn)
            except (TypeError, ValueError):
                continue
            for pn, p in sig.parameters.items():
                d = p.default
                if isinstance(d, (np.ndarray, dict, list)) and id(d) not in seen:
                    seen.add(id(d))
                    found.append((f"{label.replace('PyMatterSim.', '')}.{pn}", d))
    return found


# scalar settings an echo may copy (none of them is mirrored in an op's "meta")
ECHO_KEYS = {"N", "Nmax", "r_cut", "qrange", "qconst", "rdelta", "a", "c", "sigma", "gaussian_cut", "deltar", "cal_type", "onlypositive",
             "coarse_graining", "mean_norm", "eigvals", "transform_matrix", "average_complex", "shiftpotential"}


class Entry:
    __slots__ = ("name", "kind", "value", "tag", "depth", "src", "base")

    def __init__(self, name, kind, value, tag, depth, src):
        self.name, self.kind, self.value, self.tag, self.depth, self.src = name, kind, value, tag, depth, src
        self.base = None


class World(WorldBase):
    prop = "C18"

    @staticmethod
    def components():
        from worlds import c18_adapters as ad
        return ad.components()

    @staticmethod
    def preflight():
        from worlds import c18_adapters as ad
        _c, _e, missing = ad.completeness()
        if missing:
            # a public callable this tree has and the adapter registry does not know (a helper a
            # refactor made public, a new method): said loudly and listed in the evidence under
            # not_reached - but it must not stop the entry points that *are* adapted from being
            # checked, so it is not an error
            print("NOTE public entry points with neither an adapter nor a stated exclusion (not exercised): " + ", ".join(missing), flush=True)

    @staticmethod
    def make_swarm(rng, batch):
        from worlds import c18_adapters as ad
        groups = sorted(ad.GROUPS)
        sw = {
            "nops": rng.randint(10, 26),
            "chunk": rng.choice(CHUNKS),
            "buf": rng.choice(BUFS),
            "groups": sorted(rng.sample(groups, rng.randint(3, len(groups)))),
            "p_default": rng.choice([0.0, 0.3, 0.7]),
            "p_outfile": rng.choice([0.2, 0.5, 0.8]),
            "maxN": rng.choice([8, 12, 12, 18, 18, 36]),
            "maxT": rng.choice([2, 3, 4, 4, 8]),          # now and then trajectories long enough for windows of several frames
            "p_centred": rng.choice([0.1, 0.4, 0.8]),
            "p_reuse": rng.choice([0.3, 0.6, 0.9]),
            "clients": rng.randint(1, 3),
            "p_echo": rng.choice([0.0, 0.15, 0.3]),
            "p_edit": rng.choice([0.0, 0.0, 0.08, 0.15]),
            "p_env": rng.choice([0.0, 0.0, 0.1, 0.25]),
            "p_thread": rng.choice([0.0, 0.0, 0.0, 0.15]),
            "huge": rng.random() < float(os.environ.get("VERIF_C18_HUGE", "0.01")),
            "mid": rng.random() < float(os.environ.get("VERIF_C18_MID", "0.07")),              # two trajectories of a few hundred particles
            "p_respell": rng.choice([0.0, 0.05, 0.15]),
            "p_result_edit": rng.choice([0.0, 0.1, 0.3]),
            "faults": [],
        }
        if sw["mid"]:
            sw["p_echo"] = 0.35                     # the same entry point on the other (larger / smaller) system
            sw["p_reuse"] = 0.3
        if batch == "fault":
            sw["faults"] = rng.sample(["interrupt", "interrupt_line", "interrupt_line", "alloc_line", "oserror_write", "oserror_open",
                                       "short_write", "short_read", "oserror_read"], rng.randint(1, 4))
            sw["p_fault"] = rng.choice([0.15, 0.3])
            sw["chunk"] = rng.choice(CHUNKS[:4])
            sw["buf"] = rng.choice(BUFS[:4])
            sw["p_outfile"] = rng.choice([0.5, 0.8])
            sw["hold_max"] = rng.choice([0, 4, 8, 8])
        return sw

    # ------------------------------------------------------------------ construction ----
    def __init__(self, ctx, swarm, replica=False):
        super().__init__(ctx, swarm)
        from worlds import c18_adapters as ad
        self.ad = ad
        self.replica = replica
        self.pool = {}        # name -> Entry
        self.files = {}       # rel path -> dict(kind, src, snaps, meta)
        self.next_id = 0
        self.history = {}     # op id -> op (acknowledged, defining ops only are needed for closures)
        self.last_call = {}   # adapter id -> canonical digest of its last result (repeat-call probe)
        self.recent = []      # the last few acknowledged call ops (for echoes)
        self.disk = None      # digests of the sandbox's files after the last operation
        self.written_by = {}  # file -> entry point whose completed call wrote it last (acknowledged output)
        self.retry = []       # requests that failed by an injected fault and are made again (same output name)
        self.plain_by_id = {}  # op id -> (closure ids, canonical result) of recent calls without an object (respelled re-issues)
        self.readers_of = {}  # path -> recent ops that read it
        self.reissue = []     # ops to make again after the file they read was rewritten / an argument was edited
        self.edits = {}       # bundle root ('S3') -> ids of the client's in-place edits of its arrays, ascending
        self.server = None
        self.defaults = []
        os.makedirs("outdir", exist_ok=True)        # some output names carry a directory
        if not replica:
            self.defaults = [(label, obj, copy.deepcopy(obj)) for label, obj in collect_defaults()]
            self.server = ReplicaServer(replica_handler, ctx.root)
            self.printopts = repr(sorted(np.get_printoptions().items(), key=lambda kv: kv[0]))
            self.errstate = repr(sorted(np.geterr().items()))
            self.canary_due = 0

    plain_by_id = None

    def teardown(self):
        self.held = []
        if self.server is not None:
            self.server.close()
            self.server = None

    # ------------------------------------------------------------------------ pool ----
    def add(self, name, kind, value, tag, depth, src):
        e = Entry(name, kind, value, tag, depth, src)
        if not self.replica:
            if kind == "snaps":
                e.base = [(lab, copy.deepcopy(v)) for lab, v in snaps_arrays(value)]
            elif kind in ("arr", "dict"):
                e.base = copy.deepcopy(value)
        self.pool[name] = e
        return e

    def val(self, ref):
        """Resolve an argument: {'$': name[, 'frame': t]} -> the pooled object itself (or a view
        of one frame); anything else is a literal."""
        if isinstance(ref, dict) and "$" in ref:
            e = self.pool.get(ref["$"])
            if e is None:
                raise Refuse(f"no pool entry {ref['$']}")
            v = e.value
            if "frame" in ref:
                t = ref["frame"]
                if e.kind == "snaps":
                    if t >= v.nsnapshots:
                        raise Refuse("frame")
                    return v.snapshots[t]
                if t >= len(v):
                    raise Refuse("frame")
                return v[t]
            if "item" in ref:
                return v[ref["item"]]
            return v
        return ref

    def refs(self, obj, out=None):
        """All pool names an op's arguments mention."""
        if out is None:
            out = []
        if isinstance(obj, dict):
            if "$" in obj:
                out.append(obj["$"])
            else:
                for v in obj.values():
                    self.refs(v, out)
        elif isinstance(obj, (list, tuple)):
            for v in obj:
                self.refs(v, out)
        return out

    def base_of(self, name):
        """Pool name -> id of the operation that defined it ('S3.ppp' -> 3, 'R12.1' -> 12)."""
        head = name.split(".")[0]
        return int(head[1:])

    def closure(self, op):
        """Ids of the operations that built the inputs of `op`, transitively, ascending.  What a
        client did to a pooled array in place between calls is part of the input: every edit made
        so far to anything the closure mentions (or to something sharing memory with it, see
        do_edit) is replayed, in order, together with whatever built the edit's own target."""
        need = set()
        stack = [op]
        me = op.get("id")
        while stack:
            o = stack.pop()
            names = self.refs(o.get("args", {})) + ([o["obj"]] if "obj" in o else []) + ([o["target"]] if "target" in o else [])
            deps = set(self.base_of(n) for n in names)
            deps.update(o.get("reads", {}).values())
            deps.update(o.get("after", []))
            for r in {n.split(".")[0] for n in names}:
                deps.update(i for i in self.edits.get(r, []) if i != me)
            for d in deps:
                if d not in need and d != o.get("id") and d != me:
                    if d not in self.history:
                        raise Refuse(f"dependency {d} not in history")
                    need.add(d)
                    stack.append(self.history[d])
        return sorted(need)

    # ------------------------------------------------------------------- generation ----
    def gen(self, rng):
        sw = self.swarm
        nsn = sum(1 for e in self.pool.values() if e.kind == "snaps" and e.tag.get("base"))
        if nsn == 0 or (nsn < 3 and rng.random() < (0.25 if sw.get("huge") else 0.08)):
            return self.stamp(self.ad.gen_mk_snaps(self, rng), rng)
        while self.reissue:
            old = self.reissue.pop(0)
            if rng.random() < 0.7 and all(p in self.files for p in old.get("reads", {})) \
                    and all(n in self.pool for n in self.refs(old.get("args", {}))):
                op = copy.deepcopy({k: v for k, v in old.items() if k not in ("fault", "id", "client", "why")})
                op["reads"] = {p: self.files[p]["src"] for p in old.get("reads", {})}
                try:
                    self.precheck(op)
                except Refuse:
                    continue
                self.ctx.probe("reissued_after_" + old.get("why", "rewrite"))
                return self.stamp(op, rng)
        if self.recent and rng.random() < sw.get("p_respell", 0.0):
            # a recent call again, its inputs spelled another way (dict items in the opposite
            # order): "the same inputs" must give the same result
            cand = [o for o in self.recent if "obj" not in o and not o.get("respell") and o["id"] in self.plain_by_id
                    and any(isinstance(v, dict) and "$" in v and self.pool.get(v["$"]) is not None
                            and self.pool[v["$"]].kind == "dict" and len(self.pool[v["$"]].value) >= 2 for v in o.get("args", {}).values())]
            if cand:
                old_op = rng.choice(cand)
                op = copy.deepcopy({k: v for k, v in old_op.items() if k not in ("fault", "id", "client", "why", "printopts", "thread", "loglevel", "printopts_scoped")})
                op["respell"] = old_op["id"]
                try:
                    self.precheck(op)
                    return self.stamp(op, rng)
                except Refuse:
                    pass
        while self.retry:
            ent = self.retry[0]
            ent["ttl"] -= 1
            if ent["ttl"] < 0 or rng.random() < 0.25:
                self.retry.pop(0)
                continue
            op = copy.deepcopy(ent["op"])
            if ent["cls"]:
                twins = sorted(n for n, e in self.pool.items() if e.kind == "obj" and e.tag.get("cls") == ent["cls"])
                if not twins:
                    ctor = self.ad.REG.get(ent["cls"] + ".init")
                    new = ctor.gen(self, rng) if ctor is not None else None
                    if new is None:
                        self.retry.pop(0)
                        continue
                    new["op"] = "call"
                    new["ad"] = self.ad.REG[new.pop("as")].id if "as" in new else ctor.id
                    self.ctx.probe("fresh_object_for_the_repeated_request")
                    return self.stamp(new, rng)
                op["obj"] = rng.choice(twins)
                e = self.pool[op["obj"]]
                if "reads" in op and self.ad.REG[op["ad"]].rereads:
                    # the files this method re-reads are those the (new) object was built on; files
                    # named in the call's own arguments stay the call's own dependencies
                    op["reads"] = dict(e.tag.get("files", {}))
            self.retry.pop(0)
            try:
                self.precheck(op)
            except Refuse:
                continue
            self.ctx.probe("request_repeated_after_failure")
            return self.stamp(op, rng)
        if self.recent and rng.random() < sw.get("p_result_edit", 0.0):
            # the client post-processes, in place, what a method of a long-lived object has just
            # returned to it, and calls the method again: if the object handed out its own state,
            # the second answer (and every later one) is another
            last = self.recent[-1]
            if "obj" in last and last["obj"] in self.pool and last["id"] != getattr(self, "_last_result_edit", None):
                names = sorted(n for n, e in self.pool.items() if e.src == last["id"] and e.kind == "arr" and e.tag.get("result")
                               and e.tag.get("role") != "held" and isinstance(e.value, np.ndarray) and e.value.dtype.kind in "fc"
                               and e.value.size and e.value.flags.writeable)
                if names:
                    self._last_result_edit = last["id"]
                    self.reissue.append(dict(last, why="result_edit"))
                    return self.stamp({"op": "edit", "target": rng.choice(names), "how": rng.randrange(3), "seed": rng.randrange(1 << 30)}, rng)
        if rng.random() < sw.get("p_edit", 0.0) * (3.0 if sw.get("huge") else 1.0):
            op = self.gen_file_edit(rng) if rng.random() < (0.7 if sw.get("huge") else 0.3) else self.gen_edit(rng)
            if op is not None:
                return self.stamp(op, rng)
        if getattr(self, "canary_due", 0) > 0:
            self.canary_due -= 1
            for name in sorted(self.pool):
                e = self.pool[name]
                if e.tag.get("role") == "gr_values" and e.depth == 0 and np.any(np.asarray(e.value) == 0.0):
                    b = name.rsplit(".", 1)[0]
                    if b + ".rbins" in self.pool:
                        self.ctx.probe("call_with_nan_result_scheduled_after_errstate_change")
                        op = {"op": "call", "ad": "s2_integral",
                              "args": {"gr": {"$": name}, "gr_bins": {"$": b + ".rbins"}, "ndim": self.pool[b].tag["ndim"]}}
                        return self.stamp(op, rng)
            for old in reversed(self.recent):
                if all(n in self.pool for n in self.refs(old.get("args", {}))) and all(p in self.files for p in old.get("reads", {})):
                    self.reissue.append(dict(old, why="errstate_change"))
        for _try in range(60):
            echo = None
            if self.recent and rng.random() < sw.get("p_echo", 0.0):
                # another client repeats a recent call - same entry point, same scalar settings -
                # on (preferably) another object or trajectory: what weakly keyed caches and
                # state shared between objects need in order to show
                echo = rng.choice(self.recent)
                a = self.ad.REG[echo["ad"]]
            else:
                a = self.ad.choose(self, rng)
            self.cur_adapter = a.id
            op = a.gen(self, rng)
            if op is not None and echo is not None:
                for _again in range(3):
                    if op is None or op.get("obj") != echo.get("obj") or "obj" not in echo:
                        break
                    op = a.gen(self, rng)
                if op is not None:
                    for k, v in echo.get("args", {}).items():
                        if k in ECHO_KEYS and k in op.get("args", {}) and not isinstance(v, (dict, list)):
                            op["args"][k] = v
                    self.ctx.probe("echo_calls")
            if op is None:
                continue
            op["op"] = "call"
            if "as" in op:                       # a generator that needs a support call first asks for that one
                a = self.ad.REG[op.pop("as")]
                self.cur_adapter = a.id
            op["ad"] = a.id
            op = self.stamp(op, rng)
            writes = any("output" in k and isinstance(v, str) and v for k, v in op.get("args", {}).items())
            if sw["faults"] and rng.random() < min(0.8, sw["p_fault"] * (2.5 if writes else 1.0)):     # faults go where files are written
                kind = rng.choice(sw["faults"])
                if kind in ("interrupt_line", "alloc_line"):
                    nln = self.dry_lines(lambda: self.exec_call(op, dry=True))
                    if nln > 0 and "obj" not in op and rng.random() < 0.5:
                        # crash-point sweep: the same call is cancelled at m instants spread over
                        # its whole execution (inputs must be intact after each), then runs to
                        # completion and is judged as usual
                        m = min(nln, rng.choice([6, 12, 20]))
                        ats = sorted({1 + (k * nln) // m + rng.randrange(max(1, nln // m)) for k in range(m)})
                        op["fault"] = {"kind": "interrupt_line_sweep", "ats": [min(nln, x) for x in ats], "at": ats[0],
                                       "exc": "alloc_line" if kind == "alloc_line" else "interrupt_line"}
                        self.ctx.probe("dry_runs_lines")
                    elif nln > 0:
                        op["fault"] = {"kind": kind, "at": rng.randint(1, nln), "hold": rng.randint(min(2, sw.get("hold_max", 0)), sw.get("hold_max", 0))}
                        self.ctx.probe("dry_runs_lines")
                elif a.faultable:
                    nev = self.dry_events(lambda: self.exec_call(op, dry=True))
                    if nev > 0:
                        op["fault"] = {"kind": kind, "at": self.pick_fault_event(rng, nev), "hold": rng.randint(min(2, sw.get("hold_max", 0)), sw.get("hold_max", 0))}
                        if kind == "oserror_write" and rng.random() < 0.5:
                            op["fault"]["persist"] = True        # the disk stays full for the rest of the call
                        self.ctx.probe("dry_runs")
            if "fault" not in op:
                # what the calling client did to its process first (never replayed in the clean
                # room: results must not depend on it)
                if rng.random() < sw.get("p_env", 0.0):
                    op["printopts"] = {"threshold": rng.choice([5, 50, 1000]), "linewidth": rng.choice([20, 75, 200]),
                                       "edgeitems": rng.choice([1, 3]), "precision": rng.choice([3, 8])}
                if rng.random() < sw.get("p_thread", 0.0):
                    op["thread"] = True
                if op.get("printopts") and rng.random() < 0.4:
                    op["printopts_scoped"] = True      # `with np.printoptions(...)`: restored after the call
                if rng.random() < sw.get("p_env", 0.0) * 0.7:
                    op["loglevel"] = rng.choice(["DEBUG", "DEBUG", "INFO"])
            return op
        return self.stamp(self.ad.gen_mk_snaps(self, rng), rng)

    EDITABLE = {"qvector", "condition", "sigmas", "epsilons", "rcuts", "diameters", "masses", "radii", "series_C", "eigfreq",
                "eigvec", "group", "gr_values"}

    def gen_edit(self, rng):
        """A client changes one of its own arrays in place between two calls (a scan over wave
        vectors stepping one buffer, a field rescaled, two particles swapped) and then repeats a
        recent call that was given that array: the result must be the one for the new content."""
        if rng.random() < 0.3:
            # the client post-processes a result it holds, in place (normalises it, rescales it):
            # its own array - but if the library handed out its internal state, later calls change
            held = sorted(n for n, e in self.pool.items() if e.kind == "arr" and e.tag.get("result") and e.tag.get("role") != "held"
                          and isinstance(e.value, np.ndarray) and e.value.dtype.kind in "fc" and e.value.size and e.value.flags.writeable
                          and e.src in self.history)
            if held:
                name = rng.choice(held)
                producer = self.history[self.pool[name].src]
                if producer.get("op") == "call":
                    self.reissue.append(dict(producer, why="result_edit"))
                return {"op": "edit", "target": name, "how": rng.randrange(3), "seed": rng.randrange(1 << 30)}
        cand = []          # (pool name, op that used it recently)
        for o in self.recent:
            for n in self.refs(o.get("args", {})):
                e = self.pool.get(n)
                if e is not None and e.depth == 0 and not e.tag.get("huge") and \
                        (e.tag.get("role") in self.EDITABLE or (e.kind == "snaps" and e.tag.get("base") and not e.tag.get("reader"))):
                    cand.append((n, o))
        if cand and rng.random() < 0.8:
            name, user = rng.choice(cand)
        else:
            names = sorted(n for n, e in self.pool.items() if e.depth == 0 and e.tag.get("role") in self.EDITABLE)
            if not names:
                return None
            name, user = rng.choice(names), None
        e = self.pool[name]
        if e.kind == "snaps" and rng.random() < 0.35:
            return None           # trajectories are edited less often than the small arrays
        if user is not None:
            self.reissue.append(dict(user, why="edit"))
        return {"op": "edit", "target": name, "how": rng.randrange(3), "seed": rng.randrange(1 << 30)}

    def gen_file_edit(self, rng):
        """Another process (an editor, rsync -t, a re-run that differs in one number) changes one
        token near the end of a file the library wrote or reads - same length, optionally the
        same modification time - and the calls that read the file are made again."""
        cand = sorted(p for p, f in self.files.items() if f["kind"] in ("nl", "weights", "dump") and self.readers_of.get(p))
        if not cand:
            cand = sorted(p for p, f in self.files.items() if f["kind"] in ("nl", "weights", "dump"))
        if not cand:
            return None
        p = rng.choice(cand)
        for r in self.readers_of.get(p, []):
            if "obj" not in r:
                self.reissue.append(dict(r, why="file_edit"))
        return {"op": "file_edit", "path": p, "seed": rng.randrange(1 << 30), "keep_mtime": rng.random() < 0.5,
                "reads": {p: self.files[p]["src"]}}

    def do_file_edit(self, op):
        p = op["path"]
        f = self.files.get(p)
        if f is None or f["src"] != op["reads"][p] or not os.path.exists(p):
            raise Refuse("file is not the one this edit was generated for")
        rng = np.random.default_rng(op["seed"])
        st = os.stat(p)
        with simio.real_open(p, "r", encoding="utf-8", newline="") as fh:
            lines = fh.read().split("\n")
        first_data = 9 if f["kind"] == "dump" else 1
        import re
        data = [i for i, ln in enumerate(lines) if i >= first_data and ln.strip()[:1].isdigit() and len(ln.split()) >= 3]
        if not data:
            self.ctx.probe("file_edit_found_nothing")
            return f"{p} unchanged"
        tail = data[-max(1, len(data) // 20):]           # the last rows of the last frame
        done = False
        for _try in range(30):
            i = int(rng.choice(tail))
            toks = [(m.start(), m.group()) for m in re.finditer(r"\S+", lines[i])]
            idx = [k for k, (_a, t) in enumerate(toks) if k >= 2 and any(c.isdigit() for c in t)]
            if not idx:
                continue
            k = int(rng.choice(idx))
            start, tok = toks[k]
            j = [q for q, c in enumerate(tok) if c.isdigit()][-1]      # the last digit: the smallest change of value
            new = str((int(tok[j]) + int(rng.integers(1, 9))) % 10)
            if f["kind"] == "nl":
                # a neighbour id: stay a valid id of the same width, other than the row's own
                n = f.get("N", 0)
                cands = [c for c in "0123456789" if c != tok[j] and (len(tok) > 1 or c != "0")
                         and 1 <= int(tok[:j] + c + tok[j + 1:]) <= n and tok[:j] + c + tok[j + 1:] != toks[0][1]]
                if not cands:
                    continue
                new = str(rng.choice(cands))
            if new == tok[j]:
                continue
            lines[i] = lines[i][:start + j] + new + lines[i][start + j + 1:]
            done = True
            break
        if not done:
            self.ctx.probe("file_edit_found_nothing")
            return f"{p} unchanged"
        with simio.real_open(p, "w", encoding="utf-8", newline="") as fh:
            fh.write("\n".join(lines))
        if os.stat(p).st_size != st.st_size:
            raise HarnessError("file_edit changed the file size")
        if op.get("keep_mtime"):
            os.utime(p, ns=(st.st_atime_ns, st.st_mtime_ns))
        self.history[op["id"]] = op
        f["src"] = op["id"]
        self.ctx.probe("file_edited_in_place_same_size")
        self.ctx.probe(f"file_edit:{f['kind']}")
        return f"{p} line {i}"

    def do_edit(self, op):
        e = self.pool.get(op["target"])
        if e is None:
            raise Refuse("no pool entry to edit")
        rng = np.random.default_rng(op["seed"])
        v = e.value
        if isinstance(v, np.ndarray) and not v.flags.writeable:
            raise Refuse("read-only array")
        how = op["how"]
        role = e.tag.get("role")
        if e.kind == "snaps":
            t = int(rng.integers(0, v.nsnapshots))
            pos = v.snapshots[t].positions
            i, j, k = (int(x) for x in rng.choice(pos.shape[0], size=3, replace=False))
            if how == 0:
                pos[[i, j]] = pos[[j, i]]                 # two particles trade places (stays inside the box)
            else:
                # one particle is moved to the centroid of itself and two others (inside the box,
                # which is convex): the set of positions itself changes, not only its labelling
                pos[i] = (pos[i] + pos[j] + pos[k]) / 3.0
        elif e.kind == "dict":
            for k in list(v):
                v[k] = float(v[k]) * (1.0 + 0.03125 * (how + 1))
        elif role == "qvector":
            if how == 0:
                v *= 2
            elif how == 1:
                v[:] = v[::-1].copy()
            else:
                v += np.sign(v).astype(v.dtype)         # every component one step further out; zeros stay
        elif v.dtype == bool:
            v[...] = np.roll(v, 1, axis=-1)
        elif role in ("sigmas", "epsilons", "rcuts"):
            if how == 2 and v.ndim == 2 and v.shape[0] >= 2:
                # one pair type only - the smallest entry, so that the largest stays what it was
                i, j = np.unravel_index(int(np.argmin(v)), v.shape)
                v[i, j] = v[j, i] = v[i, j] * 0.875       # stays symmetric
            else:
                v *= (1.0 + 0.03125 * (how + 1))                # stays symmetric
        elif role == "condition" and v.ndim >= 2:
            t = int(rng.integers(0, v.shape[0]))
            if how == 0:
                v[t] *= 1.5
            elif how == 1:
                v[t] = np.roll(v[t], 1, axis=0)
            else:
                v += 0.25
        else:
            if how == 0:
                v *= 1.25
            else:
                v += 0.125
        if not self.replica:
            e.base = [(lab, copy.deepcopy(x)) for lab, x in snaps_arrays(v)] if e.kind == "snaps" else copy.deepcopy(v)
        self.history[op["id"]] = op
        root = op["target"].split(".")[0]
        self.edits[root] = sorted(set(self.edits.get(root, []) + [op["id"]]))
        if not self.replica:
            # no library code ran: whatever else changed shares memory with the edited array (a
            # result that is a view of another result or of an input).  It is re-based, and the
            # edit becomes part of its history too, so that the clean room replays it
            for n2 in sorted(self.pool):
                e2 = self.pool[n2]
                if e2 is e or e2.base is None:
                    continue
                if e2.kind == "snaps":
                    now = snaps_arrays(e2.value)
                    changed = any(not same_bits(old, new) for (_l, old), (_l2, new) in zip(e2.base, now))
                    if changed:
                        e2.base = [(lab, copy.deepcopy(x)) for lab, x in now]
                else:
                    changed = not same_bits(e2.base, e2.value)
                    if changed:
                        e2.base = copy.deepcopy(e2.value)
                if changed:
                    r2 = n2.split(".")[0]
                    self.edits[r2] = sorted(set(self.edits.get(r2, []) + [op["id"]]))
                    self.ctx.probe("client_edit_reached_an_aliasing_pool_entry")
        if e.tag.get("result"):
            self.ctx.probe("client_edits_a_result_it_holds")
        self.ctx.probe("client_edits_in_place")
        self.ctx.probe(f"edit:{role or e.kind}")
        return f"{op['target']} how={how}"

    def stamp(self, op, rng):
        op["id"] = self.ctx.step
        op["client"] = "analyst-" + "ABC"[rng.randrange(self.swarm["clients"])]
        return op

    # -------------------------------------------------------------------- execution ----
    def apply(self, op):
        if self.replica:
            return self.apply2(op)
        self.tick_held()
        if self.due():
            self.release_due()
        self.check_disk_between_calls()
        try:
            return self.apply2(op)
        finally:
            self.disk = dirstate(self.ctx.root)

    def check_disk_between_calls(self):
        """Nothing but the release of a kept exception happens between two operations: a file
        the library wrote and acknowledged must not change then (the stale buffer of a handle
        that an earlier, cancelled call leaked is flushed when that handle is finalised)."""
        if self.disk is None:
            return
        now = dirstate(self.ctx.root)
        for p in sorted(self.written_by):
            if self.disk.get(p) != now.get(p, "absent") and p in self.disk:
                ad = self.written_by[p]
                raise Violation(f"C18/I3-file-changed-later:{ad}:{kind_of(p)}",
                                f"{p}, written by {ad} and correct when it was written, changed afterwards without any "
                                f"call being made ({self.disk.get(p)} -> {now.get(p, 'absent')}): it no longer holds what was returned")

    def finish(self):
        if not self.replica and self.held:
            self.release_all()
            self.check_disk_between_calls()

    def apply2(self, op):
        k = op["op"]
        if k == "mk_snaps":
            return self.do_mk_snaps(op)
        if k == "call":
            return self.do_call(op)
        if k == "edit":
            return self.do_edit(op)
        if k == "file_edit":
            return self.do_file_edit(op)
        raise HarnessError(f"unknown op {k}")

    def do_mk_snaps(self, op):
        made = self.ad.build_bundle(op["recipe"])
        sid = f"S{op['id']}"
        for suffix, kind, value, tag in made:
            tag = dict(tag)
            tag["bundle"] = sid
            self.add(sid + suffix, kind, value, tag, 0, op["id"])
        self.history[op["id"]] = op
        r = op["recipe"]
        self.ctx.probe(f"snaps_{r['ndim']}d_{r['cell']}" + ("_centred" if r["centred"] else ""))
        return f"{sid} ndim={r['ndim']} N={r['N']} T={r['T']} K={r['K']} cell={r['cell']}"

    def exec_call(self, op, dry=False):
        """Resolve and run the adapter (both worlds).  -> raw result"""
        a = self.ad.REG[op["ad"]]
        return a.run(self, op)

    def precheck(self, op):
        a = self.ad.REG.get(op["ad"])
        if a is None:
            raise Refuse("unknown adapter")
        for n in self.refs(op.get("args", {})) + ([op["obj"]] if "obj" in op else []):
            if n not in self.pool:
                raise Refuse(f"no pool entry {n}")
        for path, src in op.get("reads", {}).items():
            f = self.files.get(path)
            if f is None or f["src"] != src:
                raise Refuse(f"file {path} is not the one this call was generated for")
        for d in op.get("after", []):
            if d not in self.history:
                raise Refuse("prerequisite call missing")
        if "obj" in op:
            e = self.pool[op["obj"]]
            for path, src in e.tag.get("files", {}).items():
                if a.rereads and (path not in self.files or self.files[path]["src"] != src):
                    raise Refuse("object's file was rewritten")
            want = a.prereq
            if want and e.tag.get("prereq_done") != op.get("after", [None])[-1]:
                raise Refuse("prerequisite state changed")
        return a

    def do_call(self, op):
        a = self.precheck(op)
        if self.replica:
            res = self.exec_call(op)
            self.register(op, a, res, None)
            return "replica"
        ctx = self.ctx
        tag = a.id
        fault = op.get("fault")
        if fault and fault["kind"] == "interrupt_line_sweep":
            if "obj" in op:
                raise Refuse("sweeps are for calls without a long-lived object")
            for at in fault["ats"]:
                before = dirstate(ctx.root)
                _res, exc, (_nev, _dig, fired) = self.call(lambda: self.exec_call(op), {"kind": fault.get("exc", "interrupt_line"), "at": at})
                self.drop_last()
                self.check_inputs(tag, op)
                after = dirstate(ctx.root)
                for p in after:
                    if before.get(p) != after[p]:
                        self.files.pop(p, None)
                        self.written_by.pop(p, None)
                ctx.probe("sweep_cancellations" if fired else "sweep_point_past_end")
            fault = None
        before = dirstate(ctx.root)

        def client_call():
            if op.get("loglevel"):
                ctx.probe("client_switched_library_logging_on")
                with lib_logging(op["loglevel"]):
                    return client_call2()
            return client_call2()

        def client_call2():
            if op.get("printopts") and op.get("printopts_scoped"):
                ctx.probe("client_changed_numpy_printoptions_scoped")
                with np.printoptions(**op["printopts"]):
                    return self.exec_call(op)
            if op.get("printopts"):
                np.set_printoptions(**op["printopts"])
                ctx.probe("client_changed_numpy_printoptions")
            return self.exec_call(op)
        fn = client_call
        if op.get("thread") and not fault:
            ctx.probe("call_from_worker_thread")
            fn = self.in_thread(client_call)
        res, exc, (nev, dig, fired) = self.call(fn, fault)
        if exc is not None and fault and fault.get("hold", 0) > 0 and not self.replica:
            # the client keeps the exception of the failed call for a while (sys.last_exc in a
            # REPL, a job runner collecting errors): what the call leaked is finalised later
            self.hold_last(fault["hold"], tag)
        else:
            self.drop_last()
        after = dirstate(ctx.root)
        delta = {p: d for p, d in after.items() if before.get(p) != d}
        delta.update({p: "absent" for p in before if p not in after})
        # ---- I1: inputs untouched (also after a failed call: the call was made)
        self.check_inputs(tag, op)
        self.observe_globals(tag)
        failing = fired is not None and fired[0] in ("interrupt", "interrupt_line", "alloc_line", "oserror_write", "oserror_open", "oserror_read")
        if exc is not None and failing:
            # relaxed oracle: the call that was made to fail may fail; its outputs are
            # un-acknowledged, the object it was called on leaves the pool
            for p in delta:
                self.files.pop(p, None)
                self.written_by.pop(p, None)
            if not self.replica and any("output" in k and isinstance(v, str) and v for k, v in op.get("args", {}).items()) \
                    and not op.get("prereq_needed") and "after" not in op:
                # what a user does next: the same request again - same output name - on a fresh object
                self.retry.append({"op": {k: copy.deepcopy(v) for k, v in op.items() if k not in ("fault", "id", "client", "why")},
                                   "cls": self.pool[op["obj"]].tag.get("cls") if "obj" in op and op["obj"] in self.pool else None, "ttl": 4})
            if "obj" in op:
                self.taint(op["obj"])
            ctx.probe("call_failed_by_fault")
            ctx.probe(f"failed:{tag}")
            return f"{tag} failed {exc[0]} ev={nev}"
        # ---- I2: the clean-room replica
        ids = self.closure(op)
        req = {"swarm": self.swarm, "seed": ctx.seed, "ops": [self.history[i] for i in ids] + [op]}
        rep = self.server.request(req)
        if rep.get("setup_exc"):
            raise HarnessError(f"replica could not rebuild the inputs of {tag}: {rep['setup_exc']}")
        ctx.probe("replica_requests")
        ctx.probe("closure_ops", len(ids))
        if exc is not None or rep["exc"] is not None:
            if exc is not None and rep["exc"] is not None and exc[0] == rep["exc"][0]:
                # a call that raises the same way with and without history says nothing about
                # C18 (it is an invalid or unsupported input); counted, never judged
                ctx.probe(f"raises_both:{tag}:{exc[0]}")
                if "obj" in op:
                    self.taint(op["obj"])
                for p in delta:
                    self.files.pop(p, None)
                    self.written_by.pop(p, None)
                return f"{tag} raises {exc[0]} in both worlds"
            raise Violation(f"C18/I2-raise-differs:{tag}",
                            f"live {'raised ' + exc[0] + ': ' + exc[1] if exc else 'returned normally'}; "
                            f"clean-room replica {'raised ' + rep['exc'][0] + ': ' + rep['exc'][1] if rep['exc'] else 'returned normally'}; "
                            f"args={self.brief(op)}")
        live_plain = a.canon_result(self, op, res)
        d_live = canon(live_plain)
        if d_live != rep["digest"]:
            detail = "result differs from the clean-room replica"
            if rep.get("blob") is not None:
                try:
                    detail += ": " + diff_summary(pickle.loads(rep["blob"]), live_plain)
                except Exception as e:  # noqa: BLE001
                    detail += f" (no summary: {e})"
            raise Violation(f"C18/I2-differs:{tag}", f"{detail}; args={self.brief(op)}")
        for p, d in sorted(rep["files"].items()):
            if after.get(p, "absent") != d:
                raise Violation(f"C18/I2-file-differs:{tag}:{kind_of(p)}",
                                f"file {p} written by the call differs from the clean-room replica's "
                                f"({after.get(p, 'absent')} vs {d}); args={self.brief(op)}")
        extra = sorted(p for p in delta if p not in rep["files"])
        gone = [p for p in extra if delta[p] == "absent" and p not in self.files]
        if gone:
            # a file nobody acknowledged (the scratch file an earlier, cancelled call left behind)
            # was removed: nothing the property speaks about
            ctx.probe("unacknowledged_leftover_removed", len(gone))
            extra = [p for p in extra if p not in gone]
        if extra:
            raise Violation(f"C18/I2-other-file-changed:{tag}",
                            f"the call changed {extra}, which the same call in the clean room does not touch; args={self.brief(op)}")
        if rep.get("state") is not None and "obj" in op and op["obj"] in self.pool:
            # not judged (a private cache would be legitimate): how often the attributes of a
            # long-lived object after a call differ from the clean room's
            same = canon(obj_state(self.pool[op["obj"]].value)) == rep["state"]
            ctx.probe("object_state_equals_clean_room" if same else f"object_state_differs_from_clean_room:{tag}")
        # ---- the same inputs, spelled another way: same result as the original call
        if op.get("respell") is not None and op["respell"] in self.plain_by_id:
            ids0, plain0 = self.plain_by_id[op["respell"]]
            if ids0 == ids:            # nothing the call depends on was edited or rewritten in between
                why = close_plain(plain0, live_plain)
                ctx.probe("respelled_call_compared")
                if why:
                    raise Violation(f"C18/I2-respelled-differs:{tag}",
                                    f"the same inputs spelled another way (an equal dict with its items in the opposite order) give "
                                    f"another result: {why}; args={self.brief(op)}")
        if "obj" not in op and not self.replica:
            self.plain_by_id[op["id"]] = (ids, copy.deepcopy(live_plain))
            for k in sorted(self.plain_by_id)[:-8]:
                del self.plain_by_id[k]
        # ---- I3: the file holds what was returned
        n3 = a.check_files(self, op, res)
        if n3:
            ctx.probe("i3_files_compared", n3)
        # ---- bookkeeping
        if fired:
            ctx.probe("correct_under_" + fired[0])
        if tag in self.last_call:
            ctx.probe("entry_point_called_again")
        self.last_call[tag] = d_live
        for p, dg in delta.items():
            if dg == "absent":
                self.written_by.pop(p, None)
            else:
                self.written_by[p] = tag
        self.register(op, a, res, delta)
        self.recent = (self.recent + [op])[-6:]
        ctx.probe(f"ok:{tag}")
        return f"{tag} {d_live} files={len(delta)} ev={nev}"

    def register(self, op, a, res, delta):
        oid = op["id"]
        self.history[oid] = op
        for p, meta in a.outputs(self, op):
            if os.path.exists(p):
                m = dict(meta)
                m["src"] = oid
                old = self.files.get(p)
                self.files[p] = m
                if old is not None and not self.replica:
                    # the file was rewritten: the calls that read the old version are worth making
                    # again, unchanged, on the new one (read after rewrite)
                    for r in self.readers_of.pop(p, []):
                        if "obj" not in r and self.compatible(old, m):
                            self.reissue.append(r)
        if not self.replica:
            for p in op.get("reads", {}):
                self.readers_of[p] = (self.readers_of.get(p, []) + [op])[-3:]
        if delta is not None:
            for p in delta:
                if p in self.files and self.files[p]["src"] != oid:
                    self.files.pop(p)        # overwritten by something that is not a registered input kind
        depth = 1 + max([self.pool[n].depth for n in self.refs(op.get("args", {})) if n in self.pool] +
                        ([self.pool[op["obj"]].depth] if "obj" in op and op["obj"] in self.pool else []) + [0])
        exported = a.exports(self, op, res)
        for suffix, kind, value, tag in exported:
            self.add(f"{a.prefix}{oid}{suffix}", kind, value, tag, depth, oid)
        if not exported and not self.replica:
            # results nobody consumes are still held by the client that got them
            held = [x for x in (res if isinstance(res, (list, tuple)) else [res]) if isinstance(x, np.ndarray)]
            if held:
                self.add(f"H{oid}", "arr", held, {"role": "held", "result": True}, depth, oid)
        if "obj" in op and a.sets_prereq and op["obj"] in self.pool:
            self.pool[op["obj"]].tag["prereq_done"] = oid

    @staticmethod
    def compatible(old, new):
        keys = ("kind", "nlkind", "ndim", "nextra", "K", "coord")
        same_n = True
        return all(old.get(k) == new.get(k) for k in keys) and old.get("frames", 1) <= new.get("frames", 1) \
            and old.get("N") == new.get("N") and same_n

    def taint(self, name):
        for n in [n for n in self.pool if n == name or n.startswith(name + ".")]:
            self.pool.pop(n)

    # --------------------------------------------------------------------- oracles ----
    def check_inputs(self, tag, op):
        used = set(self.refs(op.get("args", {})))
        if "obj" in op:
            used.add(op["obj"])
        for name in sorted(self.pool):
            e = self.pool[name]
            if e.base is None:
                continue
            if e.kind == "snaps":
                now = snaps_arrays(e.value)
                for (lab, old), (_lab2, new) in zip(e.base, now):
                    if not same_bits(old, new):
                        role = "argument" if name in used else "not-passed"
                        raise Violation(f"C18/I1-mutated:{tag}:snapshots{lab.split(']')[-1]}",
                                        f"{name}{lab} ({role}) changed during the call: {describe_change(old, new)}; args={self.brief(op)}")
            else:
                if not same_bits(e.base, e.value):
                    if e.tag.get("result") and name not in used and not name.split(".")[0] in {n.split(".")[0] for n in used}:
                        # an earlier *result* changed although it was not passed to this call
                        producer = self.history.get(e.src, {})
                        same_object = "obj" in op and producer.get("obj") == op["obj"]
                        if same_object:
                            # a method updating state that an earlier result of the same object
                            # aliases: recorded, re-based, not judged
                            self.ctx.probe("earlier_result_changed_by_own_object")
                            e.base = copy.deepcopy(e.value)
                            continue
                        raise Violation(f"C18/I2-earlier-result-changed:{tag}:{producer.get('ad', '?')}",
                                        f"{name}, returned earlier by {producer.get('ad', '?')} and still held by its caller, changed during "
                                        f"{tag}, which was not given it: {describe_change(e.base, e.value)}; the same earlier call no longer "
                                        f"'returned' what it returned; args={self.brief(op)}")
                    raise Violation(f"C18/I1-mutated:{tag}:{e.tag.get('role', e.kind)}",
                                    f"{name} changed during the call: {describe_change(e.base, e.value)}; args={self.brief(op)}")
        for label, obj, base in self.defaults:
            if not same_bits(base, obj):
                raise Violation(f"C18/I1-default:{label}",
                                f"the default-argument object {label} changed during {tag}: {describe_change(base, obj)}")

    def observe_globals(self, tag):
        now = repr(sorted(np.get_printoptions().items(), key=lambda kv: kv[0]))
        if now != self.printopts:
            self.ctx.probe("numpy_printoptions_changed_by:" + tag)
            self.printopts = now
        err = repr(sorted(np.geterr().items()))
        if err != self.errstate:
            # not judged by itself (the property lists arrays and results); but the scheduler now
            # makes calls whose ordinary result holds a NaN (0 * log 0 in an empty g(r) bin, a
            # neighbourless particle): if the leaked state turns them into errors, I2 says so
            self.ctx.probe("numpy_errstate_changed_by:" + tag)
            self.errstate = err
            self.canary_due = 3

    def invariants(self):
        pass


    # ------------------------------------------------------------------ bookkeeping ----
    def brief(self, op):
        return repr({k: op[k] for k in ("obj", "args", "reads") if k in op})[:500]

    def state_sig(self):
        return (tuple(sorted((n, e.kind, e.tag.get("cls", "")) for n, e in self.pool.items() if "." not in n)),
                tuple(sorted((p, f["kind"], f["src"]) for p, f in self.files.items())))

    def interleaving_sig(self, ops):
        out = []
        for o in ops:
            f = o.get("fault")
            out.append((o["op"], o.get("ad"), o.get("obj"), tuple(sorted(self.refs(o.get("args", {})))),
                        tuple(sorted(o.get("reads", {}))), (f["kind"], min(f["at"], 30) if not f["kind"].startswith("interrupt_line") else min(f["at"] // 25, 40)) if f else None))
        return tuple(out)

    def nontrivial(self, ops):
        return sum(1 for o in ops if o["op"] == "call") >= 3

    @staticmethod
    def simplify(op):
        if op.get("fault"):
            o = dict(op)
            o.pop("fault")
            yield o
        # (bundle recipes are not shrunk: later operations carry sizes derived from them, and a
        # replay that is internally inconsistent could keep a signature for the wrong reason)


def close_plain(a, b, rtol=1e-9, atol=1e-12, where="result"):
    """None if two canonical results agree (floats to rtol / atol: another insertion order may
    change a summation order), else a short description of the first disagreement."""
    import pandas as pd
    if isinstance(a, pd.DataFrame) or isinstance(b, pd.DataFrame):
        if not (isinstance(a, pd.DataFrame) and isinstance(b, pd.DataFrame)):
            return f"{where}: {type(a).__name__} vs {type(b).__name__}"
        if [str(c) for c in a.columns] != [str(c) for c in b.columns] or a.shape != b.shape:
            return f"{where}: columns / shape {list(a.columns)} {a.shape} vs {list(b.columns)} {b.shape}"
        return close_plain(a.to_numpy(), b.to_numpy(), rtol, atol, where)
    if isinstance(a, (list, tuple)) and isinstance(b, (list, tuple)):
        if len(a) != len(b):
            return f"{where}: length {len(a)} vs {len(b)}"
        for i, (x, y) in enumerate(zip(a, b)):
            w = close_plain(x, y, rtol, atol, f"{where}[{i}]")
            if w:
                return w
        return None
    if isinstance(a, dict) and isinstance(b, dict):
        if sorted(map(str, a)) != sorted(map(str, b)):
            return f"{where}: keys differ"
        for k in a:
            w = close_plain(a[k], b[k], rtol, atol, f"{where}[{k!r}]")
            if w:
                return w
        return None
    if isinstance(a, (np.ndarray, np.generic, int, float, complex)) and isinstance(b, (np.ndarray, np.generic, int, float, complex)) \
            and not isinstance(a, bool) and not isinstance(b, bool):
        x, y = np.asarray(a), np.asarray(b)
        if x.shape != y.shape:
            return f"{where}: shape {x.shape} vs {y.shape}"
        if x.dtype == object or y.dtype == object:
            return None if all(str(p) == str(q) for p, q in zip(x.ravel(), y.ravel())) else f"{where}: object arrays differ"
        if x.dtype.kind in "US" or y.dtype.kind in "US":
            return None if np.array_equal(x, y) else f"{where}: text arrays differ"
        with np.errstate(all="ignore"):
            ok = np.isclose(x, y, rtol=rtol, atol=atol, equal_nan=True)
        if not np.all(ok):
            k = int(np.argmin(ok.ravel()))
            return f"{where}: {int((~ok).sum())} of {ok.size} values differ, first at flat index {k}: {x.ravel()[k]!r} vs {y.ravel()[k]!r}"
        return None
    return None if (a == b) is True or a is b or (a is None and b is None) or str(a) == str(b) else f"{where}: {a!r} vs {b!r}"


def kind_of(path):
    for ext in (".csv", ".npy", ".dat", ".txt"):
        if path.endswith(ext):
            return ext[1:]
    return "other"


def diff_summary(a, b, where="result"):
    """First difference between two plain results (a = replica, b = live)."""
    if isinstance(a, pd.DataFrame) and isinstance(b, pd.DataFrame):
        if list(a.columns) != list(b.columns):
            return f"{where}: columns {list(a.columns)} vs {list(b.columns)}"
        if a.shape != b.shape:
            return f"{where}: shape {a.shape} vs {b.shape}"
        for c in a.columns:
            r = diff_summary(a[c].to_numpy(), b[c].to_numpy(), f"{where}[{c!r}]")
            if r:
                return r
        return ""
    if isinstance(a, np.ndarray) and isinstance(b, np.ndarray):
        if a.dtype != b.dtype or a.shape != b.shape:
            return f"{where}: {a.dtype}{a.shape} vs {b.dtype}{b.shape}"
        if a.tobytes() == b.tobytes():
            return ""
        if a.dtype == object:
            return f"{where}: object arrays differ"
        with np.errstate(all="ignore"):
            ne = ~((a == b) | ((a != a) & (b != b)))
            k = int(np.argmax(ne.ravel())) if ne.any() else 0
            return (f"{where}: {int(ne.sum())} of {a.size} elements differ; first at flat index {k}: "
                    f"clean room {a.ravel()[k]!r} vs live {b.ravel()[k]!r}")
    if isinstance(a, (list, tuple)) and isinstance(b, (list, tuple)):
        if len(a) != len(b):
            return f"{where}: length {len(a)} vs {len(b)}"
        for i, (x, y) in enumerate(zip(a, b)):
            r = diff_summary(x, y, f"{where}[{i}]")
            if r:
                return r
        return ""
    if isinstance(a, dict) and isinstance(b, dict):
        if sorted(a, key=repr) != sorted(b, key=repr):
            return f"{where}: keys differ"
        for k in a:
            r = diff_summary(a[k], b[k], f"{where}[{k!r}]")
            if r:
                return r
        return ""
    if same_bits(a, b) or (a is None and b is None):
        return ""
    return f"{where}: clean room {a!r} vs live {b!r}"[:300]


def replica_handler(req, box):
    """Runs in a grandchild of the replica server (pristine process state, fresh directory)."""
    gc.disable()
    os.chdir(box)
    simio.ACTIVE = None
    ctx = Ctx(req["seed"], "replica", box, None, replica=True)
    w = World(ctx, req["swarm"], replica=True)
    ops = req["ops"]
    try:
        for op in ops[:-1]:
            ctx.step = op["id"]
            w.apply(op)
    except BaseException as e:  # noqa: BLE001
        import traceback
        return {"setup_exc": f"{type(e).__name__}: {e} in op {op.get('ad', op['op'])}#{op['id']}\n{traceback.format_exc()[-1500:]}"}
    op = ops[-1]
    ctx.step = op["id"]
    a = w.precheck(op)
    # "written by the call" must include a rewrite with identical bytes: every existing file is
    # stamped with a fixed old time first, so that whatever carries another stamp afterwards
    # was written by the call (the stamp never enters a verdict by value)
    before = dirstate(box)
    stamp = 10 ** 18
    for p in before:
        os.utime(os.path.join(box, p), ns=(stamp, stamp))
    res, exc = None, None
    try:
        res = w.exec_call(op)
    except BaseException as e:  # noqa: BLE001
        exc = (type(e).__name__, str(e)[:300])
    after = dirstate(box)
    files = {p: d for p, d in after.items()
             if before.get(p) != d or os.stat(os.path.join(box, p)).st_mtime_ns != stamp}
    out = {"exc": exc, "files": files, "digest": None, "blob": None, "state": None}
    if "obj" in op and op["obj"] in w.pool:
        out["state"] = canon(obj_state(w.pool[op["obj"]].value))
    if exc is None:
        pl = a.canon_result(w, op, res)
        out["digest"] = canon(pl)
        try:
            blob = pickle.dumps(pl, protocol=4)
            if len(blob) < 400000:
                out["blob"] = blob
        except Exception:  # noqa: BLE001
            pass
    return out
