"""C18 adapters, part 4: utilities (FFT, fitting, functions, geometry, PBC, spherical
harmonics, wave vectors) and the header writers."""
import numpy as np

from worlds.c18_base import Adapter, comp, conds, maybe_default, outpath, pick_base, ref
from worlds.c18_ad_dyn import _csv_arg


def _gen_filon(w, rng):
    s = pick_base(w, rng)
    if s is None:
        return None
    args = {"C": ref(comp(w, s, ".C")), "t": ref(comp(w, s, ".tt")), "a": rng.choice([0, 0, 25.0])}
    out = outpath(w, rng, "csv")
    if out:
        args["outputfile"] = out
    maybe_default(w, rng, args, "a", ok=args["a"] == 0)
    return {"args": args}


Adapter("Filon_COS", "utils", "utils.fft.Filon_COS", gen=_gen_filon, files=_csv_arg("csv:6"))


FIT_FUNCS = {
    "line": lambda x, a, b: a * x + b,
    "expo": lambda x, a, b: a * np.exp(-b * x),
}


def _gen_fits(w, rng):
    s = pick_base(w, rng)
    if s is None:
        return None
    f = rng.choice(sorted(FIT_FUNCS))
    args = {"fit_func": f, "xdata": ref(comp(w, s, ".tt")), "ydata": ref(comp(w, s, ".C")),
            "style": rng.choice(["linear", "log"])}
    if rng.random() < 0.5:
        args["p0"] = [1.0, 1.0]
    if rng.random() < 0.3:
        args["bounds"] = [[-50.0, -50.0], [50.0, 50.0]]
    if rng.random() < 0.3:
        args.update(rangea=0.001, rangeb=0.2)
    maybe_default(w, rng, args, "style", ok=args["style"] == "linear")
    return {"args": args}


def _call_fits(w, op, kw):
    from PyMatterSim.utils.fitting import fits
    kw = dict(kw)
    kw["fit_func"] = FIT_FUNCS[kw["fit_func"]]
    if "bounds" in kw:
        kw["bounds"] = tuple(kw["bounds"])
    if kw.get("style") == "log":
        kw.setdefault("rangea", 0.001)
        kw.setdefault("rangeb", 0.2)
    return fits(**kw)


Adapter("fits", "utils", "utils.fitting.fits", gen=_gen_fits, call=_call_fits, faultable=False, weight=0.6)


def _scalar(id, target, gen, group="scalars", **kw):
    group = "scalars"
    Adapter(id, group, target, gen=gen, faultable=False, weight=kw.pop("weight", 0.4), **kw)


_scalar("kronecker", "utils.funcs.kronecker", lambda w, rng: {"args": {"i": rng.randrange(3), "j": rng.randrange(3)}})
for _n in ("nidealfac", "areafac", "alpha2factor"):
    _scalar(_n, f"utils.funcs.{_n}", lambda w, rng: {"args": rng.choice([{}, {"ndim": 2}, {"ndim": 3}])})


def _gen_moi(w, rng):
    s = pick_base(w, rng, lambda t: t["ndim"] == 3)
    if s is None:
        return None
    args = {"positions": ref(comp(w, s, ".grp")), "m": rng.choice([1, 2]), "matrix": rng.random() < 0.5}
    maybe_default(w, rng, args, "m", ok=args["m"] == 1)
    maybe_default(w, rng, args, "matrix", ok=not args["matrix"])
    return {"args": args}


_scalar("moment_of_inertia", "utils.funcs.moment_of_inertia", _gen_moi, weight=1.0)
_scalar("Wignerindex", "utils.funcs.Wignerindex", lambda w, rng: {"args": {"l": rng.choice([1, 2, 3])}}, weight=0.3,
        canon=lambda w, op, res: np.asarray(res, dtype=float))


def _gen_arr_scalar(suffix, extra):
    def gen(w, rng):
        s = pick_base(w, rng)
        if s is None:
            return None
        args = dict(extra(rng))
        key = args.pop("_key")
        args[key] = ref(comp(w, s, suffix))
        return {"args": args}
    return gen


_scalar("grid_gaussian", "utils.funcs.grid_gaussian",
        _gen_arr_scalar(".rbins", lambda rng: {"_key": "distances", "sigma": rng.choice([1, 0.5, 2.0])}), weight=1.0)
_scalar("Legendre_polynomials", "utils.funcs.Legendre_polynomials",
        _gen_arr_scalar(".C", lambda rng: {"_key": "x", "ndim": rng.choice([2, 3])}), weight=1.0)


# --------------------------------------------------------------------------- geometry ----

def _gen_triangle_area(w, rng):
    s = pick_base(w, rng)
    if s is None:
        return None
    t = w.pool[s].tag
    args = {"positions": {"$": s, "frame": rng.randrange(t["T"]), "tri": sorted(rng.sample(range(t["N"]), 3))},
            "ppp": ref(comp(w, s, ".ppp"))}
    maybe_default(w, rng, args, "ppp", ok=(t["ndim"] == 2 and t["allper"]))
    return {"args": args}


def _call_triangle_area(w, op, kw):
    from PyMatterSim.utils.geometry import triangle_area
    a = op["args"]["positions"]
    snap = w.val({"$": a["$"], "frame": a["frame"]})
    kw = dict(kw)
    kw["positions"] = snap.positions[a["tri"][0]:a["tri"][0] + 3] if a["tri"][0] + 3 <= snap.nparticle else snap.positions[:3]
    kw["hmatrix"] = snap.hmatrix
    return triangle_area(**kw)


_scalar("triangle_area", "utils.geometry.triangle_area", _gen_triangle_area, group="geometry", call=_call_triangle_area, weight=1.0)
_scalar("triangle_angle", "utils.geometry.triangle_angle",
        lambda w, rng: {"args": {"a": rng.choice([1.0, 1.2]), "b": rng.choice([1.0, 0.9]), "c": rng.choice([1.1, 0.8])}}, group="geometry")


def _pts(rng):
    return [[0.0, 0.0], [2.0, 0.0], [2.0, 2.0], [0.0, 2.0]]


def _gen_lines(w, rng):
    P = [[rng.uniform(-1, 1), rng.uniform(-1, 1)] for _ in range(2)] + [[rng.uniform(2, 3), rng.uniform(-3, -2)], [rng.uniform(-3, -2), rng.uniform(2, 3)]]
    return {"args": {f"P{i + 1}": [round(x, 4) for x in P[i]] for i in range(4)}}


def _call_np_args(target):
    def call(w, op, kw):
        from worlds.c18_base import lib
        return lib(target)(**{k: np.array(v, dtype=float) if isinstance(v, list) else v for k, v in kw.items()})
    return call


_scalar("lines_intersection", "utils.geometry.lines_intersection", _gen_lines, group="geometry",
        call=_call_np_args("utils.geometry.lines_intersection"))


def _gen_lws(w, rng):
    P = _pts(rng)
    args = {f"P{i + 1}": P[i] for i in range(4)}
    args["R0"] = [round(rng.uniform(0.3, 1.7), 4), round(rng.uniform(0.3, 1.7), 4)]
    args["vector"] = [round(rng.uniform(-1, 1), 4) or 0.3, round(rng.uniform(-1, 1), 4) or -0.2]
    return {"args": args}


_scalar("LineWithinSquare", "utils.geometry.LineWithinSquare", _gen_lws, group="geometry",
        call=_call_np_args("utils.geometry.LineWithinSquare"))


def _gen_remove_pbc(w, rng):
    s = pick_base(w, rng)
    if s is None:
        return None
    t = w.pool[s].tag
    c = conds(w, s, ("TNd",), ("float",))
    if not c:
        return None
    n = rng.choice(c)
    fr = rng.randrange(len(w.pool[n].value))
    args = {"RIJ": ref(n, fr), "hmatrix": {"$": s, "frame": min(fr, t["T"] - 1), "field": "hmatrix"}, "ppp": ref(comp(w, s, ".ppp"))}
    maybe_default(w, rng, args, "ppp", ok=(t["ndim"] == 3 and t["allper"]))
    return {"args": args}


def _call_remove_pbc(w, op, kw):
    from PyMatterSim.utils.pbc import remove_pbc
    kw = dict(kw)
    kw["hmatrix"] = kw["hmatrix"].hmatrix        # the snapshot's own array, by reference
    return remove_pbc(**kw)


_scalar("remove_pbc", "utils.pbc.remove_pbc", _gen_remove_pbc, group="geometry", call=_call_remove_pbc, weight=1.5)


# ------------------------------------------------------------------ spherical harmonics ----

def _gen_angles(w, rng):
    return {"args": {"theta": round(rng.uniform(0.05, 3.09), 6), "phi": round(rng.uniform(-3.1, 3.1), 6)}}


_scalar("SphHarm0", "utils.spherical_harmonics.SphHarm0", lambda w, rng: {"args": {}}, group="sph", weight=0.2)
for _l in range(1, 11):
    _scalar(f"SphHarm{_l}", f"utils.spherical_harmonics.SphHarm{_l}", _gen_angles, group="sph", weight=0.3)


def _gen_sph_l(lo, hi):
    def gen(w, rng):
        op = _gen_angles(w, rng)
        op["args"]["l"] = rng.randint(lo, hi)
        return op
    return gen


_scalar("SphHarm_above", "utils.spherical_harmonics.SphHarm_above", _gen_sph_l(11, 13), group="sph")
_scalar("sph_harm_l", "utils.spherical_harmonics.sph_harm_l", _gen_sph_l(1, 12), group="sph", weight=1.0)


# --------------------------------------------------------------------------- wavevector ----

_scalar("wavevector3d", "utils.wavevector.wavevector3d", lambda w, rng: {"args": {"numofq": rng.randint(3, 6)}}, group="wavevector")
_scalar("wavevector2d", "utils.wavevector.wavevector2d", lambda w, rng: {"args": {"numofq": rng.randint(3, 9)}}, group="wavevector")


def _gen_choose(w, rng):
    ndim = rng.choice([2, 3])
    args = {"ndim": ndim, "numofq": rng.randint(3, 6 if ndim == 3 else 9), "onlypositive": rng.choice([False, True, "x", "y"])}
    maybe_default(w, rng, args, "onlypositive", ok=args["onlypositive"] is False)
    return {"args": args}


_scalar("choosewavevector", "utils.wavevector.choosewavevector", _gen_choose, group="wavevector", weight=1.0)


def _gen_cont(w, rng):
    ndim = rng.choice([2, 3])
    return {"args": {"ndim": ndim, "numofq": rng.randint(3, 5 if ndim == 3 else 8), "onlypositive": rng.random() < 0.4}}


_scalar("continuousvector", "utils.wavevector.continuousvector", _gen_cont, group="wavevector")


# ------------------------------------------------------------------------------- writer ----

def _gen_dump_header(w, rng):
    s = pick_base(w, rng)
    if s is None:
        return None
    t = w.pool[s].tag
    args = {"timestep": rng.randrange(100000), "nparticle": t["N"],
            "boxbounds": {"$": s, "frame": rng.randrange(t["T"]), "field": "boxbounds"}, "addson": rng.choice(["", "vx vy", "order"])}
    if rng.random() < 0.3:
        args.pop("addson")
    return {"args": args}


def _call_field(target):
    def call(w, op, kw):
        from worlds.c18_base import lib
        kw = dict(kw)
        kw["boxbounds"] = kw["boxbounds"].boxbounds
        return lib(target)(**kw)
    return call


_scalar("write_dump_header", "writer.lammps_writer.write_dump_header", _gen_dump_header, group="writer",
        call=_call_field("writer.lammps_writer.write_dump_header"), weight=1.0)


def _gen_data_header(w, rng):
    s = pick_base(w, rng)
    if s is None:
        return None
    t = w.pool[s].tag
    return {"args": {"nparticle": t["N"], "nparticle_type": t["K"], "boxbounds": {"$": s, "frame": 0, "field": "boxbounds"}}}


_scalar("write_data_header", "writer.lammps_writer.write_data_header", _gen_data_header, group="writer",
        call=_call_field("writer.lammps_writer.write_data_header"), weight=1.0)
