"""C18 adapters, part 1: neighbour producers and readers, freud peer, g(r), S(q), shape."""
import numpy as np

from simkit import simio
from worlds.c18_base import (Adapter, Ctor, Method, bases, comp, conds, maybe_default, method_op, nlfiles,
                             npy_name, outpath, pick_base, ref)


# ------------------------------------------------------------------ neighbour files ----

def nl_meta(path, nparticle):
    """Harness-side parse of a freshly written neighbour file -> (min cn, max cn, frames)."""
    from worlds.c05 import parse_frames
    from worlds.c18 import quiet_io
    with quiet_io():
        frames = parse_frames(path, nparticle)
    cns = [r[1] for _h, rows in frames for r in rows]
    return min(cns), max(cns), len(frames)


def _nl_outputs(nlkind):
    def outputs(w, op):
        a = op["args"]
        path = a.get("fnfile", "neighborlist.dat")
        s = a["snapshots"]["$"]
        b = w.pool[s].tag["bundle"]
        try:
            lo, hi, nfr = nl_meta(path, w.pool[s].tag["N"])
        except (ValueError, FileNotFoundError, IndexError):
            return []
        return [(path, {"kind": "nl", "nlkind": nlkind, "snaps": b, "mincn": lo, "maxcn": hi, "frames": nfr, "N": w.pool[s].tag["N"]})]
    return outputs


def _gen_producer(kind):
    def gen(w, rng):
        from worlds.c18 import NL_PATHS
        s = pick_base(w, rng)
        if s is None:
            return None
        t = w.pool[s].tag
        args = {"snapshots": ref(s), "ppp": ref(comp(w, s, ".ppp")),
                "fnfile": rng.choice(NL_PATHS[:1] if w.swarm.get("huge") else NL_PATHS)}
        if kind == "nn":
            args["N"] = rng.randint(1, min(t["N"] - 1, 7))
        elif kind == "cut":
            args["r_cut"] = round(rng.uniform(0.3, 0.48) * t["Lmin"], 4)
        else:
            args["r_cut"] = ref(comp(w, s, ".rcut"))
        maybe_default(w, rng, args, "ppp", ok=(t["ndim"] == 3 and t["allper"]))
        maybe_default(w, rng, args, "fnfile", ok=(args["fnfile"] == "neighborlist.dat"))
        return {"args": args}
    return gen


Adapter("Nnearests", "neighbors", "neighbors.calculate_neighbors.Nnearests", gen=_gen_producer("nn"), outputs=_nl_outputs("nn"), weight=2.0)
Adapter("cutoffneighbors", "neighbors", "neighbors.calculate_neighbors.cutoffneighbors", gen=_gen_producer("cut"), outputs=_nl_outputs("cut"), weight=1.5)
Adapter("cutoffneighbors_particletype", "neighbors", "neighbors.calculate_neighbors.cutoffneighbors_particletype",
        gen=_gen_producer("cutt"), outputs=_nl_outputs("cut"))


def _gen_stub_weights(w, rng):
    c = sorted(p for p, f in w.files.items() if f["kind"] == "nl" and f.get("nlkind") in ("cut", "nn") and f["snaps"] in
               {e.tag.get("bundle") for e in w.pool.values() if e.kind == "snaps"})
    if not c:
        return None
    p = rng.choice(c)
    f = w.files[p]
    return {"args": {"nl": p, "path": rng.choice(["w_stub_a.dat", "w_stub_b.dat"]), "seed": rng.randrange(1 << 30)},
            "reads": {p: f["src"]}, "meta": {"snaps": f["snaps"], "N": f["N"], "of_src": f["src"]}}


def _call_stub_weights(w, op, kw):
    """A stub peer (another tool) writes bond weights for an existing neighbour list in the
    documented layout: same ids and coordination numbers, one positive weight per neighbour."""
    from worlds.c05 import parse_frames
    from worlds.c18 import quiet_io
    g = np.random.default_rng(kw["seed"])
    with quiet_io():
        frames = parse_frames(kw["nl"], op["meta"]["N"])
    with open(kw["path"], "w", encoding="utf-8") as out:
        for _head, rows in frames:
            out.write("id   cn   bondweights\n")
            for pid, cn, _items in rows:
                out.write("%d %d " % (pid, cn) + " ".join("%.6f" % x for x in g.uniform(0.2, 2.0, size=cn)) + "\n")
    return None


def _stub_weights_outputs(w, op):
    a, m = op["args"], op["meta"]
    try:
        lo, hi, nfr = nl_meta(a["path"], m["N"])
    except (ValueError, FileNotFoundError, IndexError):
        return []
    return [(a["path"], {"kind": "weights", "of": a["nl"], "of_src": m["of_src"], "snaps": m["snaps"], "mincn": lo, "maxcn": hi,
                         "frames": nfr, "N": m["N"]})]


Adapter("stub.mk_weights", "neighbors", "neighbors.read_neighbors.read_neighbors#stub-weights-peer", covers=[], gen=_gen_stub_weights,
        call=_call_stub_weights, outputs=_stub_weights_outputs, faultable=False, weight=1.2)


def _freud_ok(t):
    return t["cell"] == "ortho" and t["allper"] and t["N"] >= 7 and t.get("coord", "x") == "x"


def _gen_cal_neighbors(w, rng):
    from worlds.c18 import VOR_PREFIXES
    s = pick_base(w, rng, _freud_ok)
    if s is None:
        return None
    return {"args": {"snapshots": ref(s), "outputfile": rng.choice(VOR_PREFIXES)}}


def _cal_neighbors_outputs(w, op):
    a = op["args"]
    s = a["snapshots"]["$"]
    t = w.pool[s].tag
    pre = a["outputfile"]
    try:
        lo, hi, nfr = nl_meta(pre + ".neighbor.dat", t["N"])
    except (ValueError, FileNotFoundError, IndexError):
        return []
    wname = pre + (".edgelength.dat" if t["ndim"] == 2 else ".facearea.dat")
    base = {"snaps": t["bundle"], "mincn": lo, "maxcn": hi, "frames": nfr, "N": t["N"]}
    return [(pre + ".neighbor.dat", dict(base, kind="nl", nlkind="vor", weights=wname)),
            (wname, dict(base, kind="weights", of=pre + ".neighbor.dat"))]


Adapter("cal_neighbors", "freud", "neighbors.freud_neighbors.cal_neighbors", gen=_gen_cal_neighbors, outputs=_cal_neighbors_outputs, weight=1.5)


def _gen_convert(w, rng):
    s = pick_base(w, rng, lambda t: t["cell"] == "ortho")
    return None if s is None else {"args": {"snapshots": ref(s)}}


Adapter("convert_configuration", "freud", "neighbors.freud_neighbors.convert_configuration", gen=_gen_convert, faultable=False)


def _gen_volmat(w, rng):
    s = pick_base(w, rng, lambda t: _freud_ok(t) and t["N"] <= 12)
    if s is None:
        return None
    t = w.pool[s].tag
    args = {"snapshots": ref(s), "ndim": t["ndim"], "nconfig": rng.randrange(t["T"]),
            "deltar": rng.choice([0.01, 0.02]), "transform_matrix": rng.random() < 0.4}
    out = outpath(w, rng, "npy")
    if out:
        args["outputfile"] = out
    maybe_default(w, rng, args, "nconfig", ok=args["nconfig"] == 0)
    maybe_default(w, rng, args, "ndim", ok=t["ndim"] == 2)
    return {"args": args}


def _npy_file(key="outputfile", part=None):
    def files(w, op, res):
        p = op["args"].get(key)
        if not p:
            return []
        return [(npy_name(p), res if part is None else res[part], "npy")]
    return files


Adapter("VolumeMatrix", "freud", "neighbors.freud_neighbors.VolumeMatrix", gen=_gen_volmat, files=_npy_file(), weight=0.7)


def _gen_read_neighbors(w, rng):
    s = pick_base(w, rng)
    if s is None:
        return None
    weights = rng.random() < 0.45
    c = nlfiles(w, s, weights=weights, need_cn=False)
    if not c:
        return None
    p = rng.choice(c)
    f = w.files[p]
    k = rng.randint(1, f["frames"])
    # few distinct values per run, so that two reads with the same (nparticle, Nmax) are common
    nmax = rng.choice([2, max(1, f["maxcn"] - 1), f["maxcn"], 30, 30, None, None] if rng.random() < 0.8 else [1, f["maxcn"] + 2])
    return {"args": {"path": p, "nparticle": w.pool[s].tag["N"], "frames": k, "Nmax": nmax},
            "reads": {p: f["src"]}, "meta": {"snaps": w.pool[s].tag["bundle"], "weights": weights}}


def _call_read_neighbors(w, op, kw):
    from PyMatterSim.neighbors.read_neighbors import read_neighbors
    out = []
    with open(kw["path"], "r", encoding="utf-8") as f:       # the client opens, reads k frames, closes
        for _ in range(kw["frames"]):
            if kw["Nmax"] is None:
                out.append(read_neighbors(f, kw["nparticle"]))
            else:
                out.append(read_neighbors(f, kw["nparticle"], kw["Nmax"]))
    return out


def _exp_read_neighbors(w, op, res):
    if op["meta"]["weights"]:
        return [(f".{t}", "arr", a, {"role": "weights", "snaps": op["meta"]["snaps"], "frame": t, "result": True})
                for t, a in enumerate(res)]
    return [(f".{t}", "arr", a, {"role": "cnlist", "snaps": op["meta"]["snaps"], "frame": t, "result": True})
            for t, a in enumerate(res)]


Adapter("read_neighbors", "neighbors", "neighbors.read_neighbors.read_neighbors", gen=_gen_read_neighbors,
        call=_call_read_neighbors, exports=_exp_read_neighbors)


def _gen_get_input(w, rng):
    s = pick_base(w, rng)
    if s is None:
        return None
    args = {"snapshots": ref(s), "radii": ref(comp(w, s, ".radii"))}
    maybe_default(w, rng, args, "radii", ok=w.pool[s].tag["K"] <= 2)
    return {"args": args}


Adapter("get_input", "neighbors", "neighbors.voropp_neighbors.get_input", gen=_gen_get_input, faultable=False)


def _voro_ok(t):
    return _freud_ok(t) and t["ndim"] == 3 and not t.get("huge")


def _gen_voro(walls):
    def gen(w, rng):
        from worlds.c18 import VOR_PREFIXES
        s = pick_base(w, rng, _voro_ok)
        if s is None:
            return None
        t = w.pool[s].tag
        args = {"snapshots": ref(s), "radii": ref(comp(w, s, ".radii")), "outputfile": rng.choice(VOR_PREFIXES)}
        if walls:
            args["ppp"] = rng.choice(["-px", "-py", "-pz", "-px -py", "-py -pz", ""])
        else:
            args["ppp"] = "-p"
            maybe_default(w, rng, args, "ppp")
        maybe_default(w, rng, args, "radii", ok=t["K"] <= 2)
        return {"args": args}
    return gen


def _voro_outputs(w, op):
    a = op["args"]
    s = a["snapshots"]["$"]
    t = w.pool[s].tag
    pre = a["outputfile"]
    try:
        lo, hi, nfr = nl_meta(pre + ".neighbor.dat", t["N"])
    except (ValueError, FileNotFoundError, IndexError):
        return []
    base = {"snaps": t["bundle"], "mincn": lo, "maxcn": hi, "frames": nfr, "N": t["N"]}
    return [(pre + ".neighbor.dat", dict(base, kind="nl", nlkind="vor", weights=pre + ".facearea.dat")),
            (pre + ".facearea.dat", dict(base, kind="weights", of=pre + ".neighbor.dat")),
            (pre + ".voroindex.dat", {"kind": "voroindex", "snaps": t["bundle"]})]


# voro++ itself is a stub peer (simkit/peers.py); the library code around it runs as shipped
Adapter("cal_voro", "neighbors", "neighbors.voropp_neighbors.cal_voro", gen=_gen_voro(False), outputs=_voro_outputs, weight=0.8)
Adapter("voronowalls", "neighbors", "neighbors.voropp_neighbors.voronowalls", gen=_gen_voro(True), outputs=_voro_outputs, weight=0.8)


def _gen_indicehis(w, rng):
    made = sorted(p for p, f in w.files.items() if f["kind"] == "voroindex")
    if made and rng.random() < 0.6:
        p = rng.choice(made)          # the index file cal_voro / voronowalls wrote
        return {"args": {"inputfile": p, "outputfile": rng.choice(["indices_a.dat", None])}, "reads": {p: w.files[p]["src"]}}
    return {"args": {"seed": rng.randrange(1 << 30), "n": rng.randint(3, 20), "inputfile": "stub.voroindex.dat",
                     "outputfile": rng.choice(["indices_a.dat", None])}}


def _call_indicehis(w, op, kw):
    from PyMatterSim.neighbors.voropp_neighbors import indicehis
    if "seed" in kw:
        # stub peer: a voro++-style index file, written outside the simulated disk
        rng = np.random.default_rng(kw["seed"])
        with simio.real_open(kw["inputfile"], "w", encoding="utf-8") as f:
            f.write("id   voro_index   0_to_7_faces\n")
            for i in range(kw["n"]):
                idx = rng.integers(0, 4, size=8)
                f.write(f"{i + 1} " + " ".join(str(int(x)) for x in idx) + "\n")
    return indicehis(kw["inputfile"], kw["outputfile"]) if kw["outputfile"] else indicehis(kw["inputfile"])


Adapter("indicehis", "neighbors", "neighbors.voropp_neighbors.indicehis", gen=_gen_indicehis, call=_call_indicehis, weight=0.3)


# ------------------------------------------------------------------------------ g(r) ----

GR_METHODS = {1: "unary", 2: "binary", 3: "ternary", 4: "quarternary", 5: "quinary"}


def _gen_gr_init(w, rng):
    s = pick_base(w, rng)
    if s is None:
        return None
    t = w.pool[s].tag
    if rng.random() < 0.3 and comp(w, s, ".xu"):
        s = comp(w, s, ".xu")
    args = {"snapshots": ref(s), "ppp": ref(comp(w, s, ".ppp")), "rdelta": rng.choice([0.1, 0.2, 0.25])}
    out = outpath(w, rng, "csv")
    if out:
        args["outputfile"] = out
    maybe_default(w, rng, args, "ppp", ok=(t["ndim"] == 3 and t["allper"]))
    return {"args": args, "meta": {"K": t["K"], "outputfile": out, "snaps": t["bundle"]}}


Ctor("gr.init", "gr", "static.gr.gr", "gr", gen=_gen_gr_init, faultable=False)


def _gen_gr_method(name):
    def gen(w, rng):
        need = [k for k, v in GR_METHODS.items() if v == name]
        pred = (lambda t: True) if name in ("getresults", "unary") else (lambda t: t["K"] == need[0])
        return method_op(w, rng, "gr", pred=pred)
    return gen


def _csv_of_obj(fmt):
    def files(w, op, res):
        p = w.pool[op["obj"]].tag.get("outputfile")
        return [(p, res, fmt)] if p else []
    return files


for _name in ["getresults"] + list(GR_METHODS.values()):
    Method(f"gr.{_name}", "gr", f"static.gr.gr.{_name}", "gr", _name, gen=_gen_gr_method(_name), files=_csv_of_obj("csv:6"))


def _pick_frame_condition(w, rng, s, kinds):
    """-> (condition ref, conditiontype) on one frame of one (T, N, ...) array"""
    t = w.pool[s].tag
    kind = rng.choice(kinds)
    shape = {"bool": "TN", "float": "TN", "complex": "TN", "vector": "TNd", "tensor": "TNdd", "cvector": "TNm"}[kind]
    dtype = {"bool": "bool", "float": "float", "complex": "complex", "vector": "float", "tensor": "float", "cvector": "complex"}[kind]
    c = conds(w, s, (shape,), (dtype,))
    if not c:
        return None, None, None
    name = rng.choice(c)
    frame = rng.randrange(min(t["T"], len(w.pool[name].value)))
    ctype = {"vector": "vector", "tensor": "tensor", "cvector": "vector"}.get(kind)
    return ref(name, frame), ctype, frame


def _gen_conditional_gr(w, rng):
    s = pick_base(w, rng)
    if s is None:
        return None
    t = w.pool[s].tag
    c, ctype, frame = _pick_frame_condition(w, rng, s, ["bool", "float", "complex", "vector", "tensor", "cvector"])
    if c is None:
        return None
    args = {"snapshot": ref(s, frame), "condition": c, "ppp": ref(comp(w, s, ".ppp")), "rdelta": rng.choice([0.1, 0.2])}
    if ctype:
        args["conditiontype"] = ctype
    maybe_default(w, rng, args, "ppp", ok=(t["ndim"] == 3 and t["allper"]))
    return {"args": args}


Adapter("conditional_gr", "gr", "static.gr.conditional_gr", gen=_gen_conditional_gr, faultable=False)


# ------------------------------------------------------------------------------ S(q) ----

def _gen_sq_init(w, rng):
    s = pick_base(w, rng, lambda t: t["cell"] == "ortho")
    if s is None:
        return None
    t = w.pool[s].tag
    args = {"snapshots": ref(s), "qrange": rng.choice([2.0, 2.5, 3.0] if t["ndim"] == 3 else [2.0, 3.0, 4.0]),
            "onlypositive": rng.random() < 0.3}
    if rng.random() < 0.4:
        args["qvector"] = ref(comp(w, s, ".qvec"))
    out = outpath(w, rng, "csv")
    if out:
        args["outputfile"] = out
        if rng.random() < 0.3:
            args["saveqvectors"] = True
    return {"args": args, "meta": {"K": t["K"], "outputfile": out, "snaps": t["bundle"], "saveqvectors": bool(args.get("saveqvectors"))}}


Ctor("sq.init", "sq", "static.sq.sq", "sq", gen=_gen_sq_init, faultable=False)


def _gen_sq_method(name):
    def gen(w, rng):
        need = [k for k, v in GR_METHODS.items() if v == name]
        pred = (lambda t: True) if name in ("getresults", "unary") else (lambda t: t["K"] == need[0])
        return method_op(w, rng, "sq", pred=pred)
    return gen


def _files_sq(w, op, res):
    import pandas as pd
    tag = w.pool[op["obj"]].tag
    p = tag.get("outputfile")
    if not p:
        return []
    out = [(p, res, "csv:6")]
    if tag.get("saveqvectors"):
        def derived(path):
            # the per-wave-vector file, averaged over equal |q|, must give the returned table
            per = pd.read_csv(path, float_precision="round_trip")
            cols = [c for c in res.columns if c != "q"]
            if not all(c in per.columns for c in cols + ["q"]):
                return f"columns {list(per.columns)} lack {cols}"
            g = per[cols].groupby(per["q"].round(6)).mean().reset_index()
            if len(g) != len(res):
                return f"{len(g)} distinct wave numbers in the file, {len(res)} returned"
            d = float(np.max(np.abs(g[cols].to_numpy() - res[cols].to_numpy()))) if len(g) else 0.0
            dq = float(np.max(np.abs(g["q"].to_numpy() - res["q"].to_numpy()))) if len(g) else 0.0
            return None if d <= 1.5e-6 and dq <= 1.5e-6 else f"group means differ from the returned table by {d:.3g} (q by {dq:.3g})"
        out.append((p[:-4] + "_qvectors.csv", derived, "csv-derived"))
    return out


for _name in ["getresults"] + list(GR_METHODS.values()):
    Method(f"sq.{_name}", "sq", f"static.sq.sq.{_name}", "sq", _name, gen=_gen_sq_method(_name), files=_files_sq)


def _gen_conditional_sq(w, rng):
    s = pick_base(w, rng, lambda t: t["cell"] == "ortho")
    if s is None:
        return None
    c, _ctype, frame = _pick_frame_condition(w, rng, s, ["bool", "float", "vector"])
    if c is None:
        return None
    return {"args": {"snapshot": ref(s, frame), "qvector": ref(comp(w, s, ".qvec")), "condition": c}}


Adapter("conditional_sq", "sq", "static.sq.conditional_sq", gen=_gen_conditional_sq, faultable=False)


# ----------------------------------------------------------------------------- shape ----

def _gen_gyration(w, rng):
    s = pick_base(w, rng)
    return None if s is None else {"args": {"pos_group": ref(comp(w, s, ".grp"))}}


Adapter("gyration_tensor", "shape", "static.shape.gyration_tensor", gen=_gen_gyration, faultable=False)
