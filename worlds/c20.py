"""World C20: the freud Voronoi wrapper writes three files in lock-step; the library's own
reader consumes two of them; VolumeMatrix is asked for a frame by index.

Actors: a producer client (real cal_neighbors on the real external peer freud), reader
clients sharing open handles on the neighbour and weights files (real read_neighbors),
an analyst calling the real VolumeMatrix.
"""
import os

import numpy as np

from simkit import simio
from simkit.engine import Refuse, Violation
from simkit.worldbase import BUFS, CHUNKS, LINE_FAULTS, WorldBase, lib_logging
from worlds.c05 import expected_read, parse_frames

PREFIXES = ("dump", "voro_a", "voro_b", "run.v2", "sub/vor", "neighbor_run2", "neighbors.d/glass.T0.45")


_VCACHE = {}


def vconfig(recipe):
    """One VConfig (and one set of reference tessellations) per recipe and run."""
    key = repr(sorted(recipe.items()))
    if key not in _VCACHE:
        if len(_VCACHE) > 8:
            _VCACHE.clear()
        _VCACHE[key] = VConfig(recipe)
    return _VCACHE[key]


# --- the peer seam: what freud actually handed back to the library --------------------------
PEER_LOG = None        # list collecting (nlist, weights, volumes) of every tessellation while a producer call runs


def install_peer_recorder():
    """Wrap freud.locality.Voronoi.compute once per process: while PEER_LOG is a list, every
    tessellation the peer returns is copied into it.  The library's files can then be judged
    for *fidelity to what the peer returned for exactly the library's own call* - an oracle that
    needs no assumption about how the points were handed over, so it also applies where the
    single-precision peer's answer depends on the translation (and the independent reference
    evaluation therefore cannot be used)."""
    import freud
    V = freud.locality.Voronoi
    if getattr(V, "_simkit_recorder", False):
        return
    orig = V.compute

    def compute(self, system, *a, **k):
        r = orig(self, system, *a, **k)
        if PEER_LOG is not None:
            self._called_compute = True          # (freud sets this flag itself as soon as this function returns)
            PEER_LOG.append((np.array(self.nlist).copy(), np.array(self.nlist.weights, dtype=float), np.array(self.volumes, dtype=float)))
        return r
    V.compute = compute
    V._simkit_recorder = True


class VConfig:
    def __init__(self, recipe):
        self.recipe = dict(recipe)
        rng = np.random.default_rng(recipe["subseed"])
        ndim, N, T = recipe["ndim"], recipe["N"], recipe["T"]
        self.ndim, self.N, self.T = ndim, N, T
        # the length unit: particle spacings of order one (reduced units), or tens / thousands of
        # units per particle (a dilute system, coordinates in another unit): absolute thresholds
        # on faces and volumes mean something else there
        self.L = np.round(rng.uniform(3.0, 9.0, size=ndim), 3) * float(recipe.get("scale", 1.0))
        if recipe.get("shape") == "slab":
            self.L[0] = np.round(self.L[0] * 4.0, 3)     # very different side lengths
        ok = recipe["origin"]
        if ok == "centred":
            self.lo = -self.L / 2
        elif ok == "zero":
            self.lo = np.zeros(ndim)
        elif ok == "int-sum-zero":
            # small-integer bounds that sum to zero although the box is not centred
            self.L = np.array([4.0, 2.0, 6.0][:ndim])
            lo = np.array([-3.0, 1.0, -2.0][:ndim])
            hi = lo + self.L
            # sum(lo)+sum(hi) == 0 by construction in 3D: (-3+1) + (1+3) + (-2+4) = 4 -> adjust
            lo[0] -= (lo.sum() + hi.sum()) / 2.0
            self.lo = lo
        elif ok == "far":
            self.lo = np.round(rng.uniform(-1.0, 1.0, size=ndim) * 10.0 ** rng.integers(3, 6), 3)
        else:
            self.lo = rng.uniform(-10, 10, size=ndim)
        self.frames = []
        layout = recipe["layout"]
        # per-frame boxes: constant, or breathing / drifting as in a constant-pressure run
        self.Ls, self.los = [], []
        vary = recipe.get("boxes", "const") in ("vary", "cycle")
        creep = recipe.get("boxes", "const") == "creep"
        cycle = recipe.get("boxes", "const") == "cycle"      # compress / release: the last box is the first again
        for _t in range(T):
            if creep and _t > 0:
                # a slowly compressed cell: consecutive boxes differ in the sixth digit only
                Lt = self.Ls[-1] * (1.0 + rng.uniform(-9e-6, 9e-6, size=ndim))
                lot = -Lt / 2 if ok == "centred" else np.array(self.lo, dtype=float)
            elif vary and _t > 0:
                Lt = np.round(self.L * (1.0 + rng.uniform(-0.12, 0.12, size=ndim)), 3)
                lot = -Lt / 2 if ok == "centred" else np.round(self.lo + rng.uniform(-0.5, 0.5, size=ndim), 3)
            else:
                Lt, lot = self.L.copy(), np.array(self.lo, dtype=float)
            if cycle and _t == T - 1:
                Lt, lot = self.L.copy(), np.array(self.lo, dtype=float)
            self.Ls.append(Lt)
            self.los.append(lot)
        if layout == "hex":
            # (2D, large systems) a jittered triangular lattice commensurate with the box: no
            # near-degenerate vertices, so every edge stays far above the files' resolution
            nx = max(2, int(np.ceil(np.sqrt(N * (self.L[0] / self.L[1]) * 0.8660254))))
            ny = max(2, int(np.ceil(N / nx)))
            ny += ny % 2
            N = self.N = nx * ny
        for _t in range(T):
            if layout == "hex":
                jj, ii = np.meshgrid(np.arange(ny), np.arange(nx), indexing="ij")
                s = np.column_stack((((ii + 0.5 * (jj % 2)) / nx).ravel(), (jj / ny).ravel()))
                s = s + rng.normal(0, 0.04, size=s.shape) / np.array([nx, ny])
                s -= np.floor(s)
            elif layout == "lattice":
                m = int(np.ceil(N ** (1.0 / ndim)))
                grid = np.stack(np.meshgrid(*[np.arange(m)] * ndim, indexing="ij"), -1).reshape(-1, ndim)
                pick = rng.permutation(len(grid))[:N]
                s = (grid[pick] + 0.5) / m + rng.normal(0, float(recipe.get("jit", 0.06)) / m, size=(N, ndim))
                s -= np.floor(s)
            else:
                s = rng.random((N, ndim))
            if recipe.get("place") == "face" and layout != "hex":
                s[0, 0] = 0.0                              # a particle exactly on the lower x face
            if recipe.get("place") == "unwrapped" and layout != "hex":
                # recorded in a neighbouring periodic image (an unwrapped dump): same system
                s = s + rng.integers(-1, 2, size=s.shape) * (rng.random((len(s), 1)) < 0.3)
            self.frames.append(self.los[_t] + s * self.Ls[_t])
        # per-frame particle numbers: constant, or frame t keeps the first Ns[t] particles
        self.Ns = [self.N] * T
        if recipe.get("nvary") and layout != "hex":
            for t in range(1, T):
                self.Ns[t] = int(rng.integers(4, self.N + 1))
                self.frames[t] = self.frames[t][: self.Ns[t]]
            if recipe.get("grow") and T > 1:
                # the first frame is the small one
                self.Ns[0] = max(4, self.N // 2)
                self.frames[0] = self.frames[0][: self.Ns[0]]
        if recipe.get("mem") == "f32":
            # stored in single precision (what the HOOMD converters hand over): the recorded
            # coordinates *are* the rounded ones, for the library and for the reference alike
            self.frames = [f.astype(np.float32).astype(np.float64) for f in self.frames]
        self.ref = None

    def bounds(self, t=0):
        return np.column_stack((self.los[t], self.los[t] + self.Ls[t]))

    def _tess(self, pos, shift, L):
        import freud
        pts = pos - shift
        if self.ndim == 2:
            box = freud.box.Box(Lx=L[0], Ly=L[1], is2D=True)
            pts = np.hstack((pts, np.zeros((len(pts), 1))))
        else:
            box = freud.box.Box(Lx=L[0], Ly=L[1], Lz=L[2])
        # the peer computes in single precision and can take the whole process down on coincident
        # points: never hand it a point set that collapses in its own precision
        p32 = np.asarray(box.wrap(np.asarray(pts, dtype=np.float32)))
        if len(np.unique(p32, axis=0)) < len(p32):
            return None
        v = freud.locality.Voronoi()
        v.compute((box, pts))
        nl = np.array(v.nlist)
        w = np.array(v.nlist.weights, dtype=float)
        pairs = {}
        for (i, j), x in zip(nl, w):
            pairs.setdefault((int(i) + 1, int(j) + 1), []).append(float(x))
        for k in pairs:
            pairs[k].sort()
        return pairs, np.array(v.volumes, dtype=float), float(w.min()) if len(w) else 0.0

    def reference(self):
        """Independent evaluation with the external peer (unrounded), per frame:
        (pairs dict (i,j)->sorted weights, volumes, min weight, robust flag).

        'robust' = the peer's own answer is a symmetric tessellation and does not depend on
        the translation the points are handed over with (centred, as recorded, shifted by a
        third vector): the external library computes in single precision and near-degenerate
        faces appear or vanish with the translation, which is the peer's behaviour, not the
        wrapper's.  Only robust configurations count as 'in general position'."""
        if self.ref is not None:
            return self.ref
        out = []
        rng = np.random.default_rng(self.recipe["subseed"] ^ 0x5F5F)
        for t, pos in enumerate(self.frames):
            L = self.Ls[t]
            centre = self.los[t] + L / 2
            a = self._tess(pos, centre, L)
            if a is None:
                out.append(({}, np.zeros(len(pos)), 0.0, False))
                continue
            robust = a[2] >= 1e-3
            # "as recorded" is a translation the wrapper can really use (bounds that sum to zero);
            # far from the origin single precision has no digits left for it, so a second nearby
            # translation takes its place there
            second = np.zeros(self.ndim) if float(np.max(np.abs(pos))) < 200.0 else centre + rng.uniform(-0.5, 0.5, size=self.ndim) * L
            for shift in (second, centre + rng.uniform(-0.5, 0.5, size=self.ndim) * L):
                if not robust:
                    break
                b = self._tess(pos, shift, L)
                if b is None:
                    robust = False
                    break
                robust = set(a[0]) == set(b[0]) and all(len(a[0][k]) == len(b[0][k]) for k in a[0]) \
                    and all(abs(x - y) <= 1e-5 + 1e-5 * abs(x) for k in a[0] for x, y in zip(a[0][k], b[0][k])) \
                    and float(np.max(np.abs(a[1] - b[1]))) <= 1e-5 * (1 + float(np.max(a[1])))
            if robust:
                pr = a[0]
                robust = all((j, i) in pr and len(pr[(j, i)]) == len(ws) for (i, j), ws in pr.items())
            out.append((a[0], a[1], a[2], robust))
        self.ref = out
        return out

    def volmat_reference(self, k, deltar):
        """The volume-response matrix of frame k from its definition, evaluated by the harness
        with its own calls to the peer: A[m, d*i+j] = (V_m(x_ij + dr) - V_m(x_ij - dr)) / (2 dr V_m)
        for m != i, the self term from translation invariance."""
        import freud
        pos, L = self.frames[k], self.Ls[k]
        n, nd = pos.shape
        centre = self.los[k] + L / 2
        box = freud.box.Box(Lx=L[0], Ly=L[1], is2D=True) if nd == 2 else freud.box.Box(Lx=L[0], Ly=L[1], Lz=L[2])

        def vols(p):
            q = p - centre
            if nd == 2:
                q = np.hstack((q, np.zeros((n, 1))))
            v = freud.locality.Voronoi()
            return np.array(v.compute((box, q)).volumes, dtype=float)
        v0 = vols(pos)
        A = np.zeros((n, n * nd))
        for i in range(n):
            for j in range(nd):
                p1 = pos.copy()
                p1[i, j] += deltar
                p2 = pos.copy()
                p2[i, j] -= deltar
                col = (vols(p1) - vols(p2)) / (2.0 * deltar)
                col[i] = 0.0
                A[:, nd * i + j] = col
        for m in range(n):
            A[m, nd * m: nd * m + nd] = -A[m].reshape(n, nd).sum(axis=0)
        return A / v0[:, None]

    def general_position(self):
        if self.recipe.get("relay_only"):
            # admitted although the peer's answer is not robust (tiny faces, dependence on the
            # translation): judged by fidelity to the peer's own answer only.  The peer must at
            # least have produced an answer for the centred hand-over (no collapsed points)
            return all(len(r[0]) > 0 for r in self.reference())
        return all(r[3] for r in self.reference())

    def snapshots(self, only=None):
        from PyMatterSim.reader.reader_utils import SingleSnapshot, Snapshots
        snaps = []
        idx = range(self.T) if only is None else [only]
        mem = self.recipe.get("mem", "C")
        for t in idx:
            pos = self.frames[t].copy()
            if mem == "F":
                pos = np.asfortranarray(pos)                  # column-major, e.g. np.array([x, y, z]).T
            elif mem == "strided":
                wide = np.zeros((pos.shape[0], 2 * pos.shape[1] + 1))
                wide[:, ::2][:, : pos.shape[1]] = pos
                pos = wide[:, ::2][:, : pos.shape[1]]      # a non-contiguous view into a wider table
            elif mem == "f32":
                pos = pos.astype(np.float32)
            snaps.append(SingleSnapshot(
                timestep=100 * t, nparticle=self.Ns[t], particle_type=np.ones(self.Ns[t], dtype=int),
                positions=pos, boxlength=self.Ls[t].copy(), boxbounds=self.bounds(t),
                realbounds=None, hmatrix=np.diag(self.Ls[t])))
        return Snapshots(nsnapshots=len(snaps), snapshots=snaps)


def parse_overall(path, N):
    with simio.real_open(path, "r", encoding="utf-8") as f:
        lines = f.read().split("\n")
    if lines and lines[-1] == "":
        lines.pop()
    if not lines or lines[0].split() != ["id", "cn", "area_or_volume"]:
        raise ValueError(f"overall header {lines[:1]}")
    rows = []
    for ln in lines[1:]:
        it = ln.split()
        if len(it) != 3:
            raise ValueError(f"overall row {ln!r}")
        rows.append((int(it[0]), int(it[1]), float(it[2])))
    if isinstance(N, (list, tuple)):
        if len(rows) != sum(N):
            raise ValueError(f"{len(rows)} overall rows for particle numbers {list(N)}")
        out, i = [], 0
        for n in N:
            out.append(rows[i:i + n])
            i += n
        return out
    if len(rows) % N:
        raise ValueError(f"{len(rows)} overall rows for N={N}")
    return [rows[i:i + N] for i in range(0, len(rows), N)]


class World(WorldBase):
    prop = "C20"

    @staticmethod
    def components():
        return {
            "real": ["neighbors.freud_neighbors.{convert_configuration, cal_neighbors, VolumeMatrix}",
                     "neighbors.read_neighbors.read_neighbors", "freud 3.5.0 (external tessellation peer, real, single-threaded)",
                     "CPython io stack on tmpfs", "numpy.save / numpy.load"],
            "stubbed": [],
            "not_reached": ["neighbors.voropp_neighbors (voro++ executable not installed)"],
        }

    @staticmethod
    def preflight():
        import freud  # noqa: F401

    @staticmethod
    def make_swarm(rng, batch):
        sw = {
            "nops": rng.randint(6, 22),
            "chunk": rng.choice(CHUNKS),
            "buf": rng.choice(BUFS),
            "prefixes": rng.sample(PREFIXES, rng.randint(1, 3)),
            "maxN": rng.choice([6, 12, 24, 48, 48, 130]),
            "maxT": rng.randint(1, 3),
            "w_volmat": rng.choice([0, 1, 2]),
            "huge": rng.random() < float(os.environ.get("VERIF_C20_HUGE", "0.003")),
            "p_env": rng.choice([0.0, 0.1, 0.3]),
            "p_thread": rng.choice([0.0, 0.0, 0.2]),
            "p_nest": rng.choice([0.0, 0.1, 0.3]),
            "faults": [],
            "hold_max": 0,
        }
        if sw["huge"]:
            sw["nops"] = min(sw["nops"], 6)
            sw["w_volmat"] = 0
        if batch == "fault":
            sw["faults"] = rng.sample(["interrupt", "oserror_write", "short_write", "short_read", "oserror_read", "interrupt_line", "alloc_line"], rng.randint(1, 4))
            sw["hold_max"] = rng.choice([0, 1, 3])
            sw["p_fault"] = rng.choice([0.2, 0.4])
            sw["chunk"] = rng.choice(CHUNKS[:4])
            sw["buf"] = rng.choice(BUFS[:4])
            sw["w_volmat"] = rng.choice([0, 1])
            if "interrupt_line" in sw["faults"] or "alloc_line" in sw["faults"]:
                sw["w_volmat"] = rng.choice([1, 2, 3])
        return sw

    def __init__(self, ctx, swarm):
        super().__init__(ctx, swarm)
        self.configs = {}
        self.snaps = {}      # config name -> the session's one Snapshots object for it
        self.delivered = []  # (array as returned, expected copy, description, tag) of recent reads
        self.outs = {}       # prefix -> dict(cfg, frames_n, frames_w, gen)
        self.gen_no = {}
        self.handles = {}
        self.next_h = 0
        self.next_c = 0
        os.makedirs("sub", exist_ok=True)      # some of the output prefixes name a directory
        os.makedirs("neighbors.d", exist_ok=True)

    # ---------------------------------------------------------------- generation ----
    def gen(self, rng):
        sw = self.swarm
        if self.due():
            return {"op": "release"}
        if not self.configs:
            return self.gen_config(rng)
        if self.held and rng.random() < 0.5:
            return self.gen_produce(rng, prefix=self.held[-1][2])
        live = sorted(p for p in self.outs if self._acked(p))
        readable = sorted(h for h, d in self.handles.items() if not d["stale"]
                          and d["cursor"] < self.configs[self.outs[d["prefix"]]["cfg"]].T)
        choices = ["produce"] * 3
        if len(self.configs) < 3:
            choices += ["mk_config"]
        if live:
            choices += ["open_reader"] * 3
        if readable:
            choices += ["read_frame"] * 7 + ["skip_frame"]
        if self.handles:
            choices += ["close"]
        choices += ["volume_matrix"] * sw["w_volmat"]
        if self.held:
            choices += ["release"]
        kind = rng.choice(choices)
        if kind == "mk_config":
            return self.gen_config(rng)
        if kind == "produce":
            return self.gen_produce(rng)
        if kind == "open_reader":
            return {"op": "open_reader", "prefix": rng.choice(live), "which": rng.choice(["neighbor", "weights"])}
        if kind == "read_frame":
            h = rng.choice(readable)
            d = self.handles[h]
            rows = self.outs[d["prefix"]]["frames_" + d["which"][0]][d["cursor"]]
            maxcn = max(r[1] for r in rows)
            op = {"op": "read_frame", "h": h, "nmax": rng.choice([1, 2, 3, maxcn - 1, maxcn, maxcn + 1, 200, None])}
            if op["nmax"] is not None and op["nmax"] < 1:
                op["nmax"] = 1
            fk = [k for k in sw["faults"] if k in ("short_read", "oserror_read", "interrupt") + LINE_FAULTS]
            cfg = self.configs[self.outs[d["prefix"]]["cfg"]]
            if fk and rng.random() < sw.get("p_fault", 0):
                op["fault"] = {"kind": rng.choice(fk), "at": rng.randint(1, cfg.N + 1)}
                if op["fault"]["kind"] in LINE_FAULTS:
                    op["fault"]["at"] = rng.randint(1, 7 * cfg.Ns[d["cursor"]] + 12)
            else:
                self.gen_env(rng, op)
                others = [x for x in readable if x != h]
                if others and rng.random() < sw.get("p_nest", 0.0):
                    same = [x for x in others if self.configs[self.outs[self.handles[x]["prefix"]]["cfg"]].N == cfg.N]
                    h2 = rng.choice(same if same and rng.random() < 0.7 else others)
                    inner = {"op": rng.choice(["read_frame", "read_frame", "skip_frame"]), "h": h2}
                    if inner["op"] == "read_frame":
                        inner["nmax"] = op["nmax"] if rng.random() < 0.7 else rng.choice([1, 3, 200, None])
                    op["nest"] = {"at": rng.randint(1, cfg.Ns[d["cursor"]] + 1), "op": inner}
            return op
        if kind == "skip_frame":
            return {"op": "skip_frame", "h": rng.choice(readable)}
        if kind == "close":
            return {"op": "close", "h": rng.choice(sorted(self.handles))}
        if kind == "release":
            return {"op": "release", "all": True}
        if kind == "volume_matrix":
            small = sorted(c for c, v in self.configs.items() if v.N <= 14 and not v.recipe.get("relay_only"))
            if not small:
                return self.gen_config(rng, small=True)
            c = rng.choice(small)
            cfg = self.configs[c]
            save = rng.choice([None, None, "vm_out", "vm_b.npy"])
            op = {"op": "volume_matrix", "cfg": c, "nconfig": rng.randrange(cfg.T),
                  "deltar": rng.choice([0.01, 0.002, 0.05, 0.01, 0.002, -0.01, -0.002]), "transform": rng.random() < 0.3,
                  "np_scalars": rng.random() < 0.3,        # frame index and step as numpy scalars
                  "save": save, "default_ndim": bool(cfg.ndim == 2 and rng.random() < 0.3)}
            last = getattr(self, "last_vm", None)
            if last is not None and last["cfg"] in self.configs and rng.random() < 0.5:
                # the same request as the previous one (cancelled or not) - frame, step, output
                # name and all - for a replica: another configuration of the same size
                lc = self.configs[last["cfg"]]
                twins = [x for x in small if self.configs[x].ndim == lc.ndim and self.configs[x].T > last["nconfig"]
                         and self.configs[x].Ns[last["nconfig"]] == lc.Ns[last["nconfig"]]]
                other = [x for x in twins if x != last["cfg"]]
                if twins:
                    c = rng.choice(other if other and rng.random() < 0.8 else twins)
                    cfg = self.configs[c]
                    op.update(cfg=c, nconfig=last["nconfig"], deltar=last["deltar"], transform=last["transform"], save=last["save"], np_scalars=last.get("np_scalars", False),
                              default_ndim=bool(cfg.ndim == 2 and last["default_ndim"]))
                    self.ctx.probe("volmat_same_request_for_a_replica" if c != last["cfg"] else "volmat_same_request_again")
            self.last_vm = op
            lk = [k for k in sw["faults"] if k in LINE_FAULTS]
            if lk and rng.random() < 0.6:
                # the analyst cancels the (slow) finite-difference loop at an arbitrary instant and
                # carries on with the same trajectory object
                nln = self.dry_lines(lambda: self.invoke_volmat(op, self.configs[c].snapshots()))
                if nln > 0:
                    op["fault"] = {"kind": rng.choice(lk), "at": rng.randint(1, nln)}
                    self.ctx.probe("dry_runs_lines")
            return op
        raise AssertionError(kind)

    def gen_config(self, rng, small=False):
        sw = self.swarm
        sibs = [c for c in sorted(self.configs) if self.configs[c].N <= 14 and not self.configs[c].recipe.get("nvary")]
        if sibs and rng.random() < 0.35:
            # a replica of an existing configuration: same size, frames, time steps, box recipe -
            # other coordinates (what a second run of the same job produces)
            for _try in range(50):
                rec = dict(self.configs[rng.choice(sibs)].recipe, subseed=rng.randrange(1 << 40))
                if vconfig(rec).general_position():
                    self.ctx.probe("replica_configuration")
                    return {"op": "mk_config", "name": f"c{self.next_c}", "recipe": rec}
        for _try in range(200):
            ndim = rng.choice([2, 3])
            N = rng.randint(4, 14 if small else sw["maxN"])
            huge = not small and sw.get("huge") and not any(c.N > 5000 for c in self.configs.values())
            if huge:
                ndim, N = 2, rng.randint(10001, 12500)      # a size beyond any block / buffer / digit threshold
            rec = {"ndim": ndim, "N": N, "T": rng.randint(1, sw["maxT"]),
                   "origin": rng.choice(["any", "any", "centred", "zero", "int-sum-zero", "far"]),
                   "shape": rng.choice(["cube", "cube", "cube", "slab"]),
                   "layout": rng.choice(["random", "lattice"]), "boxes": rng.choice(["const", "const", "vary", "creep", "cycle"]),
                   "nvary": rng.random() < 0.25, "grow": rng.random() < 0.4,
                   "place": rng.choice(["inside", "inside", "inside", "face", "unwrapped"]),
                   "mem": rng.choice(["C", "C", "C", "F", "strided", "f32"]),
                   "subseed": rng.randrange(1 << 40)}
            if rng.random() < 0.2:
                # (the peer's 2D tessellation slows down in proportion to the box length: 1 s per call at 6000 units)
                rec["scale"] = rng.choice([40.0, 1000.0]) if ndim == 3 else rng.choice([10.0, 40.0])
                if rec["layout"] == "lattice":
                    rec["jit"] = rng.choice([0.06, 0.01, 1e-3, 1e-4])      # nearly degenerate vertices: faces tiny next to the cell
            if huge:
                # now and then several frames: more than 4 MiB of text per output file
                rec.update(layout="hex", shape="cube", T=rng.choice([1, 1, 2] if os.environ.get("VERIF_TIER", "quick") == "quick" else [1, 2, 7]),
                           boxes="const", nvary=False, mem="C")
            if vconfig(rec).general_position():
                return {"op": "mk_config", "name": f"c{self.next_c}", "recipe": rec}
            self.ctx.probe("regen_general_position")
            if not huge and rng.random() < 0.3:
                rec2 = dict(rec, relay_only=True, nvary=False)
                if vconfig(rec2).general_position():
                    self.ctx.probe("config_judged_by_peer_fidelity_only")
                    return {"op": "mk_config", "name": f"c{self.next_c}", "recipe": rec2}
        raise RuntimeError("no configuration in general position")

    def gen_produce(self, rng, prefix=None):
        sw = self.swarm
        op = {"op": "produce", "cfg": rng.choice(sorted(self.configs)), "prefix": prefix or rng.choice(sw["prefixes"])}
        fk = [k for k in sw["faults"] if k in ("interrupt", "oserror_write", "short_write") + LINE_FAULTS]
        if fk and rng.random() < sw.get("p_fault", 0) * 1.5:
            fkind = rng.choice(fk)
            if fkind in LINE_FAULTS and sw.get("huge"):
                fkind = "interrupt"
            if fkind in LINE_FAULTS:
                nln = self.dry_lines(lambda: self.invoke(op))
                op["fault"] = {"kind": fkind, "at": rng.randint(1, max(1, nln)), "hold": rng.randint(0, sw["hold_max"])}
                self.ctx.probe("dry_runs_lines")
            else:
                nev = self.dry_events(lambda: self.invoke(op))
                op["fault"] = {"kind": fkind, "at": self.pick_fault_event(rng, nev), "hold": rng.randint(0, sw["hold_max"])}
                if fkind == "oserror_write" and rng.random() < 0.5:
                    op["fault"]["persist"] = True        # the disk stays full for the rest of the call
        else:
            self.gen_env(rng, op)
            readable = sorted(h for h, d in self.handles.items() if not d["stale"] and d["prefix"] != op["prefix"]
                              and d["cursor"] < self.configs[self.outs[d["prefix"]]["cfg"]].T)
            if readable and rng.random() < sw.get("p_nest", 0.0):
                inner = {"op": "read_frame", "h": rng.choice(readable), "nmax": rng.choice([3, 200, None])}
                op["nest"] = {"at": rng.randint(1, 6 * self.configs[op["cfg"]].N), "op": inner}
        return op

    def gen_env(self, rng, op):
        sw = self.swarm
        if rng.random() < sw.get("p_env", 0.0):
            op["printopts"] = {"threshold": rng.choice([5, 50, 1000]), "linewidth": rng.choice([20, 75, 200]),
                               "edgeitems": rng.choice([1, 3]), "precision": rng.choice([3, 8])}
        if rng.random() < sw.get("p_thread", 0.0):
            op["thread"] = True
        if op.get("printopts") and rng.random() < 0.4:
            op["printopts_scoped"] = True          # `with np.printoptions(...)`: restored after the call
        if rng.random() < sw.get("p_env", 0.0) * 0.7:
            op["loglevel"] = rng.choice(["DEBUG", "DEBUG", "INFO"])

    def client(self, op, fn):
        """fn as the client calls it: after its own changes to the process, maybe from a worker thread."""
        po = op.get("printopts")

        def run():
            if op.get("loglevel"):
                self.ctx.probe("client_switched_library_logging_on")
                with lib_logging(op["loglevel"]):
                    return run2()
            return run2()

        def run2():
            if po and op.get("printopts_scoped"):
                self.ctx.probe("client_changed_numpy_printoptions_scoped")
                with np.printoptions(**po):
                    return fn()
            if po:
                np.set_printoptions(**po)
                self.ctx.probe("client_changed_numpy_printoptions")
            return fn()
        if op.get("thread"):
            self.ctx.probe("call_from_worker_thread")
            return self.in_thread(run)
        return run

    # ----------------------------------------------------------------- execution ----
    def files_of(self, prefix, ndim):
        w = ".edgelength.dat" if ndim == 2 else ".facearea.dat"
        return prefix + ".neighbor.dat", prefix + w, prefix + ".overall.dat"

    def _acked(self, prefix):
        o = self.outs.get(prefix)
        return o is not None and all(p in self.acked for p in o["paths"])

    def session_snaps(self, cname):
        """The trajectory object the analysts' session holds for this configuration: one
        object, handed to every call (what an id- or attribute-keyed memo would latch on to)."""
        if cname not in self.snaps:
            self.snaps[cname] = self.configs[cname].snapshots()
        return self.snaps[cname]

    def check_session_snaps(self, cname):
        """Whether a call changed its input is C18's business, not C20's: a changed session
        object is counted and rebuilt so that C20's oracles keep judging the recorded data."""
        live = self.snaps.get(cname)
        if live is None:
            return
        fresh = self.configs[cname].snapshots()
        for a, b in zip(live.snapshots, fresh.snapshots):
            if not (np.array_equal(a.positions, b.positions) and np.array_equal(a.boxbounds, b.boxbounds)
                    and np.array_equal(a.boxlength, b.boxlength)):
                self.ctx.probe("session_trajectory_changed_by_a_call")
                self.snaps[cname] = fresh
                return

    def invoke(self, op, snaps=None):
        from PyMatterSim.neighbors.freud_neighbors import cal_neighbors
        return cal_neighbors(snaps if snaps is not None else self.configs[op["cfg"]].snapshots(), outputfile=op["prefix"])

    def invoke_volmat(self, op, snaps):
        from PyMatterSim.neighbors.freud_neighbors import VolumeMatrix
        cfg = self.configs[op["cfg"]]
        kw = {"nconfig": op["nconfig"], "deltar": op["deltar"], "transform_matrix": op["transform"]}
        if op.get("np_scalars"):
            kw.update(nconfig=np.int64(kw["nconfig"]), deltar=np.float64(kw["deltar"]))
        if not op.get("default_ndim"):
            kw["ndim"] = cfg.ndim
        if op.get("save"):
            kw["outputfile"] = op["save"]
        return VolumeMatrix(snaps, **kw)

    def apply(self, op):
        self.tick_held()
        return getattr(self, "do_" + op["op"])(op)

    def do_mk_config(self, op):
        c = vconfig(op["recipe"])
        if not c.general_position():
            raise Refuse("not in general position")
        self.configs[op["name"]] = c
        self.next_c += 1
        self.ctx.probe("origin_" + op["recipe"]["origin"])
        return f"{op['name']} N={c.N} T={c.T} ndim={c.ndim}"

    def do_produce(self, op):
        if op["cfg"] not in self.configs:
            raise Refuse("no config")
        cfg = self.configs[op["cfg"]]
        prefix = op["prefix"]
        # every file with this prefix (2D and 3D weight names) is about to be replaced or orphaned
        for d in self.handles.values():
            if d["prefix"] == prefix and not d["stale"]:
                d["stale"] = True
                self.ctx.probe("rewrite_with_live_reader")
        old = self.outs.pop(prefix, None)
        if old:
            self.ctx.probe("rewrite")
            for p in old["paths"]:
                self.unack(p)
        if any(h[2] == prefix for h in self.held):
            self.ctx.probe("rewrite_while_failed_call_held")
        fault = op.get("fault")
        session = self.session_snaps(op["cfg"])
        if fault is None and op.get("nest"):
            fault = self.nest_plan(op["nest"])
        global PEER_LOG
        install_peer_recorder()
        PEER_LOG = []
        try:
            res, exc, (nev, dig, fired) = self.call(self.client(op, lambda: self.invoke(op, session)), fault)
        finally:
            peer, PEER_LOG = PEER_LOG, None
        self.raise_nested()
        self.check_session_snaps(op["cfg"])
        if exc is not None:
            if fired and fired[0] in ("interrupt", "oserror_write") + LINE_FAULTS:
                hold = fault.get("hold", 0)
                if hold > 0:
                    self.hold_last(hold, prefix)
                else:
                    self.drop_last()
                self.ctx.probe("producer_failed_by_fault")
                return f"{prefix} failed {exc[0]} ev={nev}"
            self.drop_last()
            raise Violation("C20/producer-raised:produce", f"{exc[0]}: {exc[1]} for N={cfg.N} ndim={cfg.ndim} origin={cfg.recipe['origin']}")
        paths = self.files_of(prefix, cfg.ndim)
        fn, fw = self.judge_files(cfg, paths, peer)
        self.gen_no[prefix] = self.gen_no.get(prefix, 0) + 1
        self.outs[prefix] = {"cfg": op["cfg"], "frames_n": fn, "frames_w": fw, "gen": self.gen_no[prefix], "paths": paths}
        for p in paths:
            self.ack(p, "produce")
        return f"{prefix} ev={nev} io={dig}"

    def judge_files(self, cfg, paths, peer=None):
        pn, pw, po = paths
        relay_only = bool(cfg.recipe.get("relay_only"))
        try:
            fn = parse_frames(pn, list(cfg.Ns))
            fw = parse_frames(pw, list(cfg.Ns))
            fo = parse_overall(po, list(cfg.Ns))
        except (ValueError, IndexError, FileNotFoundError) as e:
            raise Violation("C20/file-layout:produce", f"{type(e).__name__}: {e}")
        if not (len(fn) == len(fw) == len(fo) == cfg.T):
            raise Violation("C20/file-frames:produce", f"frames: neighbor {len(fn)}, weights {len(fw)}, overall {len(fo)}, trajectory {cfg.T}")
        ref = cfg.reference() if not relay_only else None
        out_n, out_w = [], []
        for t in range(cfg.T):
            N = cfg.Ns[t]
            vol_box = float(np.prod(cfg.Ls[t]))
            (hn, rn), (hw, rw), ro = fn[t], fw[t], fo[t]
            if "neighborlist" not in hn or "neighborlist" in hw:
                raise Violation("C20/file-layout:produce", f"frame {t}: headers {hn} / {hw}")
            ids = [r[0] for r in rn]
            if ids != list(range(1, N + 1)) or [r[0] for r in rw] != ids or [r[0] for r in ro] != ids:
                raise Violation("C20/ids:produce", f"frame {t}: ids neighbor {ids[:8]} weights {[r[0] for r in rw][:8]} overall {[r[0] for r in ro][:8]}")
            pairs = {}
            for (pid, cn, js), (_, cnw, ws), (_, cno, _v) in zip(rn, rw, ro):
                if not (cn == cnw == cno == len(js) == len(ws)):
                    raise Violation("C20/count-mismatch:produce", f"frame {t} particle {pid}: cn {cn}/{cnw}/{cno}, {len(js)} neighbours, {len(ws)} weights")
                for j, w in zip(js, ws):
                    j = int(j)
                    if not 1 <= j <= N:
                        raise Violation("C20/ids:produce", f"frame {t} particle {pid}: neighbour id {j}")
                    w = float(w)
                    if not w > 0 and not relay_only:
                        raise Violation("C20/weight:produce", f"frame {t} pair ({pid},{j}): weight {w}")
                    pairs.setdefault((pid, j), []).append(w)
            vols = np.array([r[2] for r in ro])
            self.judge_fidelity(t, N, pairs, vols, peer)
            if relay_only:
                # the peer's own answer is not robust here (faces below the files' resolution, an
                # answer that depends on the hand-over translation): symmetry, positivity and the
                # comparison with an independent evaluation are not decidable; ids, counts and
                # fidelity to the peer's answer are
                out_n.append(rn)
                out_w.append(rw)
                continue
            for (i, j), ws in pairs.items():
                back = pairs.get((j, i))
                if back is None or len(back) != len(ws):
                    raise Violation("C20/asymmetric:produce", f"frame {t}: {j} listed {len(ws)}x for {i}, {i} listed {0 if back is None else len(back)}x for {j}")
                for a, b in zip(sorted(ws), sorted(back)):
                    if abs(a - b) > 2e-6 + 2e-6 * abs(a):
                        raise Violation("C20/weight:produce", f"frame {t} pair ({i},{j}): {a} one way, {b} the other")
            vols = np.array([r[2] for r in ro])
            if abs(vols.sum() - vol_box) > N * 5e-7 + 2e-6 * vol_box:
                raise Violation("C20/volume-sum:produce", f"frame {t}: cell volumes sum to {vols.sum()}, box {vol_box}")
            # against the unrounded external evaluation of *this* frame
            rp, rv, _, _ = ref[t]
            if set(pairs) != set(rp) or any(len(pairs[k]) != len(rp[k]) for k in rp):
                raise Violation("C20/frame-content:produce", f"frame {t}: neighbour multiset differs from the tessellation of frame {t}")
            for k in rp:
                for a, b in zip(sorted(pairs[k]), rp[k]):
                    if abs(a - b) > 5e-7 + 2e-5 * (1 + abs(b)):
                        raise Violation("C20/weight:produce", f"frame {t} pair {k}: written {a}, tessellation {b}")
            if np.max(np.abs(vols - rv)) > 5e-7 + 2e-5 * (1 + float(np.max(rv))):
                raise Violation("C20/volume:produce", f"frame {t}: written volumes differ from the tessellation")
            out_n.append(rn)
            out_w.append(rw)
        return out_n, out_w

    def judge_fidelity(self, t, N, pairs, vols, peer):
        """The files relay what the peer returned for the library's own call: every bond the peer
        reported with a weight the files can resolve is listed (as often as the peer reported it),
        with that weight; nothing is listed that the peer did not report; volumes are the peer's."""
        if peer is None:
            return
        cands = [e for e in peer if len(e[2]) == N]
        if not cands:
            self.ctx.probe("peer_call_not_observed")
            return
        why = None
        for nl, w, v in cands:
            pp = {}
            for (i, j), x in zip(nl, w):
                pp.setdefault((int(i) + 1, int(j) + 1), []).append(float(x))
            why = None
            for k, ws in pp.items():
                big = sorted(x for x in ws if x >= 2e-6)
                got = sorted(pairs.get(k, []))
                if len(got) < len(big) or len(got) > len(ws):
                    why = f"pair {k}: the peer reported it {len(ws)}x ({len(big)}x with a weight the file can resolve: {big[:3]}), the files list it {len(got)}x"
                    break
                for a, b in zip(got[::-1], sorted(ws)[::-1]):
                    if abs(a - b) > 5.1e-7 + 1e-6 * abs(b):
                        why = f"pair {k}: written weight {a}, the peer returned {b}"
                        break
                if why:
                    break
            if why is None:
                extra = [k for k in pairs if k not in pp]
                if extra:
                    why = f"pair {extra[0]} is listed but the peer did not report it"
            if why is None and (len(v) != len(vols) or float(np.max(np.abs(vols - v))) > 5.1e-7 + 1e-6 * float(np.max(np.abs(v)))):
                why = "written volumes are not the peer's"
            if why is None:
                self.ctx.probe("frames_faithful_to_the_peer")
                return
        raise Violation("C20/peer-fidelity:produce", f"frame {t}: the files do not relay what the tessellation library returned to this call: {why}")

    def do_open_reader(self, op):
        prefix = op["prefix"]
        if not self._acked(prefix):
            raise Refuse("no output")
        o = self.outs[prefix]
        path = o["paths"][0 if op["which"] == "neighbor" else 1]
        res, exc, _ = self.call(lambda: open(path, "r", encoding="utf-8"))
        if exc is not None:
            self.drop_last()
            raise Violation("C20/open-raised:open_reader", f"{exc}")
        h = f"h{self.next_h}"
        self.next_h += 1
        self.handles[h] = {"prefix": prefix, "which": op["which"], "gen": o["gen"], "cursor": 0, "f": res, "stale": False, "path": path}
        if sum(1 for d in self.handles.values() if d["prefix"] == prefix and not d["stale"]) > 1:
            self.ctx.probe("lockstep_readers_on_one_output")
        return f"{h}={path}"

    def do_read_frame(self, op):
        from PyMatterSim.neighbors.read_neighbors import read_neighbors
        d = self.handles.get(op["h"])
        if d is None or d["stale"]:
            raise Refuse("no handle")
        o = self.outs[d["prefix"]]
        cfg = self.configs[o["cfg"]]
        if d["cursor"] >= cfg.T:
            raise Refuse("at end")
        nmax, f = op["nmax"], d["f"]
        n_t = cfg.Ns[d["cursor"]]
        fn = (lambda: read_neighbors(f, n_t)) if nmax is None else (lambda: read_neighbors(f, n_t, nmax))
        fault = op.get("fault")
        if fault is None and op.get("nest"):
            fault = self.nest_plan(op["nest"])
        res, exc, (nev, dig, fired) = self.call(self.client(op, fn), fault)
        self.raise_nested()
        tag = f"read_frame:{d['which']}"
        if exc is not None:
            self.drop_last()
            if fired and fired[0] in ("oserror_read", "interrupt") + LINE_FAULTS:
                d["stale"] = True
                self.ctx.probe("reader_failed_by_fault")
                return f"{op['h']} failed {exc[0]}"
            raise Violation(f"C20/reader-raised:{tag}", f"{exc[0]}: {exc[1]} frame {d['cursor']} of {d['path']} Nmax={nmax}")
        weights = d["which"] == "weights"
        rows = o["frames_w" if weights else "frames_n"][d["cursor"]]
        eff = 200 if nmax is None else nmax
        want = expected_read(rows, n_t, eff, weights)
        if not isinstance(res, np.ndarray) or res.dtype.kind != want.dtype.kind or res.shape != want.shape:
            raise Violation(f"C20/reader-shape:{tag}", f"got {getattr(res, 'dtype', None)} {getattr(res, 'shape', None)}, expected {want.dtype} {want.shape} (Nmax={nmax})")
        if not np.array_equal(res, want):
            bad = np.argwhere(res != want)[0]
            raise Violation(f"C20/reader-content:{tag}", f"frame {d['cursor']} Nmax={nmax} row {bad[0]}: got {res[bad[0]].tolist()} expected {want[bad[0]].tolist()}")
        if eff < max(r[1] for r in rows):
            self.ctx.probe("nmax_truncation")
        if d["cursor"] > 0:
            self.ctx.probe("read_second_or_later_frame")
        if fired:
            self.ctx.probe("read_correct_under_" + fired[0])
        d["cursor"] += 1
        # the client keeps what it was given: later reads must not change an earlier frame
        self.delivered = (self.delivered + [(res, want, f"frame {d['cursor'] - 1} of {d['path']}", tag)])[-12:]
        return f"{op['h']} t={d['cursor'] - 1} nmax={nmax} ev={nev} io={dig}"

    def do_skip_frame(self, op):
        d = self.handles.get(op["h"])
        if d is None or d["stale"]:
            raise Refuse("no handle")
        cfg = self.configs[self.outs[d["prefix"]]["cfg"]]
        if d["cursor"] >= cfg.T:
            raise Refuse("at end")
        f, n_t = d["f"], cfg.Ns[d["cursor"]]
        lines, exc, _ = self.call(lambda: [f.readline() for _ in range(n_t + 1)])
        if exc is not None:
            self.drop_last()
            raise Violation("C20/skip-raised:skip_frame", f"{exc}")
        if len(lines) != n_t + 1 or not lines[0].startswith("id") or any(not ln.endswith("\n") for ln in lines):
            raise Violation("C20/reader-cursor:skip_frame", f"handle {op['h']} was not at the start of frame {d['cursor']} of {d['path']}")
        d["cursor"] += 1
        self.ctx.probe("frame_skipped_by_client_with_text_api")
        return f"{op['h']} skipped t={d['cursor'] - 1}"

    def invariants(self):
        super().invariants()
        for got, want, what, tag in self.delivered:
            if got.dtype.kind != want.dtype.kind or got.shape != want.shape or not np.array_equal(got, want):
                raise Violation(f"C20/delivered-frame-changed:{tag}",
                                f"the array returned earlier for {what} no longer holds that frame (a later read changed it)")

    def do_close(self, op):
        d = self.handles.pop(op["h"], None)
        if d is None:
            raise Refuse("no handle")
        d["f"].close()
        return op["h"]

    def do_release(self, op):
        if not self.held:
            raise Refuse("nothing held")
        n = self.release_all() if op.get("all") else self.release_due()
        return f"released {n}"

    def do_volume_matrix(self, op):
        from PyMatterSim.neighbors.freud_neighbors import VolumeMatrix
        if op["cfg"] not in self.configs:
            raise Refuse("no config")
        cfg = self.configs[op["cfg"]]
        k = op["nconfig"]
        if k >= cfg.T or cfg.N > 14 or cfg.recipe.get("relay_only"):
            raise Refuse("frame index")
        if op.get("default_ndim") and cfg.ndim != 2:
            raise Refuse("default ndim is 2")
        kw = {"nconfig": k, "deltar": op["deltar"], "transform_matrix": op["transform"]}
        if op.get("np_scalars"):
            kw.update(nconfig=np.int64(k), deltar=np.float64(op["deltar"]))
        if not op.get("default_ndim"):
            kw["ndim"] = cfg.ndim
        save = op.get("save")
        if save:
            kw["outputfile"] = save
            for p in (save, save + ".npy"):
                if os.path.exists(p):
                    os.unlink(p)
        snaps = self.session_snaps(op["cfg"])
        res, exc, (_nev, _dig, fired) = self.call(lambda: VolumeMatrix(snaps, **kw), op.get("fault"))
        self.check_session_snaps(op["cfg"])
        tag = "volume_matrix"
        if exc is not None and fired and fired[0] in LINE_FAULTS:
            self.drop_last()
            self.ctx.probe("volmat_cancelled")
            return f"{op['cfg']} cancelled at line {fired[2]}"
        if exc is not None:
            self.drop_last()
            if op["transform"] and exc[0] == "LinAlgError":
                self.ctx.probe("volmat_transform_singular")
                return "transform singular (not judged)"
            raise Violation(f"C20/volmat-raised:{tag}", f"{exc[0]}: {exc[1]} for frame {k} of {cfg.T}, N={cfg.N} ndim={cfg.ndim} transform={op['transform']} save={save}")
        nd = cfg.ndim
        nk = cfg.Ns[k]
        shape = (nk * nd, nk * nd) if op["transform"] else (nk, nk * nd)
        if not isinstance(res, np.ndarray) or res.shape != shape:
            raise Violation(f"C20/volmat-shape:{tag}", f"shape {getattr(res, 'shape', None)}, expected {shape} for frame {k}")
        # requested frame: same call on a one-frame trajectory holding only frame k
        kw1 = dict(kw, nconfig=0)
        kw1.pop("outputfile", None)
        one = cfg.snapshots(only=k)
        ref, exc1, _ = self.call(lambda: VolumeMatrix(one, **kw1))
        if exc1 is not None:
            self.drop_last()
            raise Violation(f"C20/volmat-raised:{tag}", f"single-frame evaluation: {exc1}")
        if ref.shape != res.shape or not np.array_equal(res, ref, equal_nan=True):
            raise Violation(f"C20/volmat-frame:{tag}", f"result for frame {k} of {cfg.T} differs from the evaluation of that frame alone (max diff {np.nanmax(np.abs(res - ref)) if ref.shape == res.shape else 'shape'})")
        if k > 0:
            self.ctx.probe("volmat_frame_index_gt0")
        if not op["transform"]:
            # the values themselves, from the definition (an all-zero matrix also has zero row sums)
            want = cfg.volmat_reference(k, op["deltar"])
            err = float(np.max(np.abs(res - want)))
            if not err <= 1e-2 * float(np.max(np.abs(want))) + 1e-3:
                raise Violation(f"C20/volmat-values:{tag}", f"frame {k}: the returned matrix differs from the finite-difference definition by {err:.3g} (largest entry {np.max(np.abs(want)):.3g}); memory layout of the positions: {cfg.recipe.get('mem', 'C')}")
            self.ctx.probe("volmat_values_checked")
            a = res.reshape(nk, nk, nd)
            rs = np.abs(a.sum(axis=1))
            scale = max(1e-300, float(np.max(np.abs(res))))
            if not np.all(np.isfinite(res)) or float(rs.max()) > 1e-9 * scale + 1e-12:
                raise Violation(f"C20/volmat-rowsum:{tag}", f"row sums over displaced coordinate up to {rs.max()} (scale {scale})")
            self.ctx.probe("volmat_rowsum_checked")
        if save:
            p = save if save.endswith(".npy") else save + ".npy"
            if not os.path.exists(p):
                raise Violation(f"C20/volmat-save:{tag}", f"no file {p} after outputfile={save!r}")
            with simio.real_open(p, "rb") as f:
                back = np.load(f)
            if back.shape != res.shape or not np.array_equal(back, res, equal_nan=True):
                raise Violation(f"C20/volmat-save:{tag}", "saved matrix differs from the returned one")
            self.ctx.probe("volmat_saved_" + ("transformed" if op["transform"] else "raw"))
        return f"{op['cfg']} k={k} transform={op['transform']} save={save}"

    # ------------------------------------------------------------------ bookkeeping ----
    def teardown(self):
        for d in self.handles.values():
            try:
                d["f"].close()
            except Exception:
                pass
        self.held = []

    def state_sig(self):
        return (tuple(sorted((p, o["gen"], self._acked(p)) for p, o in self.outs.items())),
                tuple(sorted((d["path"], d["cursor"], d["stale"]) for d in self.handles.values())), len(self.held))

    def interleaving_sig(self, ops):
        out = []
        for o in ops:
            f = o.get("fault")
            out.append((o["op"], o.get("prefix"), o.get("which"), o.get("h"), o.get("nconfig"), o.get("transform"),
                        None if o.get("nmax", 0) is None else min(o.get("nmax", 0), 9),
                        (f["kind"], min(f["at"], 20), f.get("hold")) if f else None))
        return tuple(out)

    def nontrivial(self, ops):
        return sum(1 for o in ops if o["op"] in ("produce", "read_frame", "skip_frame", "release", "volume_matrix")) >= 3

    @staticmethod
    def simplify(op):
        if op["op"] == "mk_config":
            r = op["recipe"]
            for n in (4, 6, r["N"] // 2):
                if 4 <= n < r["N"]:
                    yield dict(op, recipe=dict(r, N=n))
            if r["T"] > 1:
                yield dict(op, recipe=dict(r, T=r["T"] - 1))
