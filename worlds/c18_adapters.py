"""C18 adapter registry: one adapter per reachable public entry point of the library."""
import importlib
import inspect
import pkgutil

from worlds.c18_base import COVERS, GROUPS, REG, build_bundle, gen_mk_snaps, objects  # noqa: F401
from worlds import c18_ad_core  # noqa: F401
try:
    from worlds import c18_ad_dyn, c18_ad_order, c18_ad_utils, c18_ad_io  # noqa: F401
except ImportError as _e:       # parts under construction
    if "c18_ad_" not in str(_e):
        raise

# public callables that take no part, with the reason (listed in the evidence)
EXCLUDED = {
    "static.vector.kspace_decomposition": "empty stub in the library",
    "utils.coarse_graining.atomic_position_average": "empty stub in the library",
    "utils.logging.get_logger_handle": "logging infrastructure, not an analysis (adds a handler per call by design)",
    "reader.reader_utils.DumpFileType": "enum",
    "reader.reader_utils.SingleSnapshot": "record type (constructed by the harness and the readers)",
    "reader.reader_utils.Snapshots": "record type (constructed by the harness and the readers)",
    "static.hessians.ModelName": "enum",
    "static.hessians.InteractionParams": "frozen parameter record (constructed inside the Hessian adapters)",
}


def public_callables():
    import PyMatterSim
    out = []
    for m in pkgutil.walk_packages(PyMatterSim.__path__, "PyMatterSim."):
        if m.ispkg:
            continue
        try:
            mod = importlib.import_module(m.name)
        except Exception:  # noqa: BLE001
            out.append((m.name.replace("PyMatterSim.", "") + ".*", "module does not import on this image"))
            continue
        short = m.name.replace("PyMatterSim.", "")
        for name, o in vars(mod).items():
            if name.startswith("_") or getattr(o, "__module__", None) != m.name:
                continue
            if inspect.isfunction(o):
                out.append((f"{short}.{name}", None))
            elif inspect.isclass(o):
                out.append((f"{short}.{name}", None))
                for mn, mo in vars(o).items():
                    if not mn.startswith("_") and inspect.isfunction(mo):
                        out.append((f"{short}.{name}.{mn}", None))
    return out


def completeness():
    """-> (covered, excluded, missing): a public callable that is neither adapted nor
    excluded with a reason is a gap the check refuses to hide."""
    covered, excluded, missing = [], [], []
    for name, why in public_callables():
        if why:
            excluded.append(f"{name}: {why}")
        elif name in COVERS:
            covered.append(name)
        elif name in EXCLUDED:
            excluded.append(f"{name}: {EXCLUDED[name]}")
        else:
            missing.append(name)
    return covered, excluded, missing


def components():
    covered, excluded, missing = completeness()
    return {
        "real": [f"{len(covered)} public entry points of PyMatterSim run as shipped from the working tree "
                 f"({len(REG)} adapters): " + ", ".join(sorted(covered)),
                 "freud (real peer library)", "CPython io stack on tmpfs", "numpy / pandas writers and parsers"],
        "stubbed": ["LAMMPS as dump producer: harness client using the real header writer plus its own atom lines",
                    "HOOMD trajectory / DCD peers: duck-typed in-process fakes; gsd / mdtraj stub modules behind the library's "
                    "own wrappers", "LAMMPS log producer: stub",
                    "voro++ executable: in-process stub behind voropp_neighbors.subprocess.run; voro++ index file for indicehis: stub peer"],
        "not_reached": excluded + [f"{m}: NO ADAPTER" for m in missing],
    }


GROUP_WEIGHT = {"boo": 3, "dynamics": 3, "readers": 2, "nematic": 2, "s2": 2, "hessian": 2, "gr": 2, "sq": 2, "coarse": 2,
                "vector": 2, "neighbors": 2, "freud": 2, "geometric": 1, "shape": 1, "utils": 1, "scalars": 1}
SUPPORT = ("Nnearests", "Nnearests", "cutoffneighbors", "cal_neighbors", "cal_neighbors", "stub.mk_dump")


def _weighted(rng, ids, weight):
    tot = sum(weight(i) for i in ids)
    x = rng.random() * tot
    for i in ids:
        x -= weight(i)
        if x <= 0:
            return i
    return ids[-1]


def choose(w, rng):
    """Pick the adapter of the next call: support files early (neighbour lists, Voronoi files,
    dumps - the library's IPC), then enabled groups by weight, biased towards further calls
    on objects that already live in the pool."""
    sw = w.swarm
    if sw.get("mid") and rng.random() < 0.55:
        # runs with trajectories of a few hundred particles concentrate on the entry points that
        # can take them: the same routine on the larger and on the smaller system, again and again
        from worlds.c18_base import MID_EXTRA
        focus = sorted(i for i in MID_EXTRA if i in REG and not i.endswith(".init"))
        if focus:
            return REG[rng.choice(focus)]
    nfiles = len(w.files)
    if rng.random() < (0.6 if nfiles == 0 else 0.3 if nfiles < 3 else 0.08):
        return REG[rng.choice(SUPPORT)]
    groups = [g for g in sw["groups"] if g in GROUPS]
    if not groups:
        groups = sorted(GROUPS)
    classes = [e.tag["cls"] for e in w.pool.values() if e.kind == "obj"]
    single = sorted(c for c in set(classes) if classes.count(c) == 1 and c + ".init" in REG)
    if single and rng.random() < (0.3 if sw.get("p_echo", 0.0) > 0 else 0.15):
        # a second object of a class that already has one: cross-object interference needs twins
        w.ctx.probe("twin_object_requested")
        return REG[rng.choice(single) + ".init"]
    if rng.random() < sw["p_reuse"]:
        live = sorted(set(classes))
        meth = [i for i in sorted(REG) if getattr(REG[i], "cls", None) in live and REG[i].prefix != "O"
                and hasattr(REG[i], "name")]
        if meth:
            return REG[rng.choice(meth)]
    g = _weighted(rng, groups, lambda k: GROUP_WEIGHT.get(k, 1))
    return REG[_weighted(rng, GROUPS[g], lambda i: REG[i].weight)]
