"""C18 adapters, part 3: bond-orientational order, geometric order, nematic order, pair
entropy, Hessian, vector-field measures."""
import numpy as np

from worlds.c18_base import (Adapter, Ctor, Method, comp, conds, maybe_default, method_op, nlfiles, npy_name,
                             outpath, pick_base, ref)
from worlds.c18_ad_dyn import _csv_arg, _exp_TN, _npy_arg


def _pick_nl(w, rng, s, want_weights):
    """-> (neighbour file, weights file or None)"""
    if want_weights:
        c = [p for p in nlfiles(w, s, kinds=("vor",)) if w.files[p].get("weights") in w.files
             and w.files[w.files[p]["weights"]].get("of") == p and w.files[w.files[p]["weights"]]["src"] == w.files[p]["src"]]
        pairs = [(p, w.files[p]["weights"]) for p in c]
        # weights another tool wrote for a cutoff / N-nearest list (a stub peer): isolated
        # particles - coordination number zero - occur there, never in a Voronoi list
        for p in nlfiles(w, s, kinds=("cut", "nn"), need_cn=False):
            for q in sorted(w.files):
                f = w.files[q]
                if f["kind"] == "weights" and f.get("of") == p and f.get("of_src") == w.files[p]["src"]:
                    pairs.append((p, q))
        pairs = [x for x in pairs if w.files[x[0]]["frames"] >= w.pool[s].tag["T"]] or pairs
        if pairs:
            return rng.choice(sorted(pairs))
    c = [p for p in nlfiles(w, s) if w.files[p]["frames"] >= w.pool[s].tag["T"]]
    return (rng.choice(c), None) if c else (None, None)


# ----------------------------------------------------------------------------- boo_3d ----

def _gen_boo3d_init(w, rng):
    s = pick_base(w, rng, lambda t: t["ndim"] == 3)
    if s is None:
        return None
    t = w.pool[s].tag
    nl, wf = _pick_nl(w, rng, s, rng.random() < 0.4)
    if nl is None:
        return None
    l = rng.choice([2, 4, 4, 6, 3])
    args = {"snapshots": ref(s), "l": l, "neighborfile": nl, "ppp": ref(comp(w, s, ".ppp")),
            "Nmax": rng.choice([30, 30, max(2, w.files[nl]["maxcn"] - 1)])}
    reads = {nl: w.files[nl]["src"]}
    if wf:
        args["weightsfile"] = wf
        reads[wf] = w.files[wf]["src"]
    maybe_default(w, rng, args, "ppp", ok=t["allper"])
    maybe_default(w, rng, args, "Nmax", ok=args["Nmax"] == 30)
    return {"args": args, "reads": reads, "meta": {"snaps": t["bundle"], "l": l, "T": t["T"], "Nmax": args.get("Nmax", 30)}}


Ctor("boo_3d.init", "boo", "static.boo.boo_3d", "boo_3d", gen=_gen_boo3d_init)


def _exp_qlm(w, op, res):
    b = w.pool[op["obj"]].tag["snaps"]
    return [(f".{k}", "arr", res[k], {"role": "condition", "shape": "TNm", "dtype": "complex", "snaps": b, "result": True})
            for k in (0, 1)]


Method("boo_3d.qlm_Qlm", "boo", "static.boo.boo_3d.qlm_Qlm", "boo_3d", "qlm_Qlm",
       gen=lambda w, rng: method_op(w, rng, "boo_3d", rereads=True), exports=_exp_qlm, rereads=True)


def _txt_or_npy(key, part=None):
    def files(w, op, res):
        p = op["args"].get(key)
        if not p:
            return []
        v = res if part is None else res[part]
        out = [(npy_name(p), v, "npy")]
        if p.endswith(".dat") or p.endswith(".txt"):
            out.append((p, v, "txt:6"))
        return out
    return files


def _gen_ql(w, rng):
    op = method_op(w, rng, "boo_3d")
    if op is None:
        return None
    op["args"]["coarse_graining"] = rng.random() < 0.5
    out = outpath(w, rng, "txt")
    if out:
        op["args"]["outputfile"] = out
    maybe_default(w, rng, op["args"], "coarse_graining", ok=not op["args"]["coarse_graining"])
    return op


Method("boo_3d.ql_Ql", "boo", "static.boo.boo_3d.ql_Ql", "boo_3d", "ql_Ql", gen=_gen_ql,
       files=_txt_or_npy("outputfile"), exports=_exp_TN("float"))


def _gen_sij(w, rng):
    op = method_op(w, rng, "boo_3d", rereads=True)
    if op is None:
        return None
    a = op["args"]
    a["coarse_graining"] = rng.random() < 0.5
    a["c"] = rng.choice([0.7, 0.5])
    if rng.random() < w.swarm["p_outfile"]:
        a["outputqlQl"] = rng.choice(["out_a.csv", "out_b.csv"])
    if rng.random() < w.swarm["p_outfile"]:
        a["outputsij"] = rng.choice(["sij_a.dat", "res_b.txt"])
    maybe_default(w, rng, a, "c", ok=a["c"] == 0.7)
    return op


def _files_sij(w, op, res):
    import pandas as pd
    a = op["args"]
    out = []
    if a.get("outputsij"):
        out.append((a["outputsij"], res, "txt:6:1"))
    if a.get("outputqlQl"):
        full = res if isinstance(res, np.ndarray) else np.concatenate([np.asarray(x) for x in res], axis=0)
        c = a.get("c", 0.7)

        def derived(path):
            # id, number of bonds with s_ij > c, number of neighbours - all derivable from what was returned
            got = pd.read_csv(path).to_numpy(dtype=float)
            want = np.column_stack((full[:, 0], (full[:, 2:] > c).sum(axis=1), full[:, 1]))
            if got.shape != want.shape:
                return f"shape {got.shape}, expected {want.shape}"
            bad = np.argwhere(got != want)
            return None if not len(bad) else f"row {bad[0][0]} column {bad[0][1]}: file {got[tuple(bad[0])]} vs {want[tuple(bad[0])]} from the returned s_ij"
        out.append((a["outputqlQl"], derived, "csv-derived"))
    return out


def _canon_sij(w, op, res):
    return res if isinstance(res, np.ndarray) else [np.asarray(x) for x in res]


Method("boo_3d.sij_ql_Ql", "boo", "static.boo.boo_3d.sij_ql_Ql", "boo_3d", "sij_ql_Ql", gen=_gen_sij,
       files=_files_sij, canon=_canon_sij, rereads=True)


def _gen_w(w, rng):
    op = method_op(w, rng, "boo_3d", pred=lambda t: t["l"] <= 4)
    if op is None:
        return None
    a = op["args"]
    a["coarse_graining"] = rng.random() < 0.5
    o1, o2 = outpath(w, rng, "txt"), outpath(w, rng, "txt")
    if o1:
        a["outputw"] = o1
    if o2 and o2 != o1:
        a["outputwcap"] = o2
    return op


def _files_w(w, op, res):
    return _txt_or_npy("outputw", 0)(w, op, res) + _txt_or_npy("outputwcap", 1)(w, op, res)


def _exp_w(w, op, res):
    b = w.pool[op["obj"]].tag["snaps"]
    return [(f".{k}", "arr", res[k], {"role": "condition", "shape": "TN", "dtype": "float", "snaps": b, "result": True}) for k in (0, 1)]


Method("boo_3d.w_W_cap", "boo", "static.boo.boo_3d.w_W_cap", "boo_3d", "w_W_cap", gen=_gen_w, files=_files_w,
       exports=_exp_w, weight=0.5)


def _gen_boo_corr(cls, kind):
    def gen(w, rng):
        op = method_op(w, rng, cls)
        if op is None:
            return None
        a = op["args"]
        if cls == "boo_3d":
            a["coarse_graining"] = rng.random() < 0.5
        if kind == "spatial":
            a["rdelta"] = rng.choice([0.1, 0.2])
        else:
            a["dt"] = rng.choice([0.002, 0.01])
            maybe_default(w, rng, a, "dt", ok=a["dt"] == 0.002)
        out = outpath(w, rng, "csv")
        if out:
            a["outputfile"] = out
        return op
    return gen


Method("boo_3d.spatial_corr", "boo", "static.boo.boo_3d.spatial_corr", "boo_3d", "spatial_corr",
       gen=_gen_boo_corr("boo_3d", "spatial"), files=_csv_arg("csv:8"))
Method("boo_3d.time_corr", "boo", "static.boo.boo_3d.time_corr", "boo_3d", "time_corr",
       gen=_gen_boo_corr("boo_3d", "time"), files=_csv_arg("csv:8"))


# ----------------------------------------------------------------------------- boo_2d ----

def _gen_boo2d_init(w, rng):
    s = pick_base(w, rng, lambda t: t["ndim"] == 2)
    if s is None:
        return None
    t = w.pool[s].tag
    nl, wf = _pick_nl(w, rng, s, rng.random() < 0.4)
    if nl is None:
        return None
    l = rng.choice([6, 6, 4, 5])
    args = {"snapshots": ref(s), "l": l, "neighborfile": nl, "ppp": ref(comp(w, s, ".ppp")),
            "Nmax": rng.choice([10, 10, max(2, w.files[nl]["maxcn"] - 1)])}
    reads = {nl: w.files[nl]["src"]}
    if wf:
        args["weightsfile"] = wf
        reads[wf] = w.files[wf]["src"]
    out = outpath(w, rng, "npy")
    if out:
        args["output_phi"] = out
    maybe_default(w, rng, args, "ppp", ok=t["allper"])
    maybe_default(w, rng, args, "Nmax", ok=args["Nmax"] == 10)
    return {"args": args, "reads": reads, "meta": {"snaps": t["bundle"], "l": l, "T": t["T"], "base": s}}


def _files_boo2d_init(w, op, res):
    p = op["args"].get("output_phi")
    return [(npy_name(p), res.ParticlePhi, "npy")] if p else []


Ctor("boo_2d.init", "boo", "static.boo.boo_2d", "boo_2d", gen=_gen_boo2d_init, files=_files_boo2d_init)


def _gen_lthorder(w, rng):
    op = method_op(w, rng, "boo_2d", rereads=True)
    if op is None:
        return None
    out = outpath(w, rng, "npy")
    if out:
        op["args"]["output_phi"] = out
    return op


Method("boo_2d.lthorder", "boo", "static.boo.boo_2d.lthorder", "boo_2d", "lthorder", gen=_gen_lthorder,
       files=_npy_arg("output_phi"), exports=_exp_TN("complex"), rereads=True)


def _gen_boo2d_tavg(w, rng):
    op = method_op(w, rng, "boo_2d", pred=lambda t: t["T"] >= 2)
    if op is None:
        return None
    tag = w.pool[op["obj"]].tag
    steps = w.pool[tag["base"]].tag["steps"]
    dt = rng.choice([0.002, 0.01])
    k = rng.randint(1, tag["T"] - 1)
    a = op["args"]
    a["time_period"] = (steps[1] - steps[0]) * dt * (k + 0.5)
    a["dt"] = dt
    a["average_complex"] = rng.random() < 0.6
    out = outpath(w, rng, "npy")
    if out:
        a["outputfile"] = out
    maybe_default(w, rng, a, "dt", ok=dt == 0.002)
    maybe_default(w, rng, a, "average_complex", ok=a["average_complex"])
    return op


def _files_boo2d_tavg(w, op, res):
    p = op["args"].get("outputfile")
    if not p:
        return []
    return [(npy_name(p), res[0], "npy"), (p + ".snapshot_id.dat", res[1], "txt:d:1")]


Method("boo_2d.time_average", "boo", "static.boo.boo_2d.time_average", "boo_2d", "time_average", gen=_gen_boo2d_tavg,
       files=_files_boo2d_tavg, exports=_exp_TN("complex", pick=0))
Method("boo_2d.spatial_corr", "boo", "static.boo.boo_2d.spatial_corr", "boo_2d", "spatial_corr",
       gen=_gen_boo_corr("boo_2d", "spatial"), files=_csv_arg("csv:8"))
Method("boo_2d.time_corr", "boo", "static.boo.boo_2d.time_corr", "boo_2d", "time_corr",
       gen=_gen_boo_corr("boo_2d", "time"), files=_csv_arg("csv:8"))


# -------------------------------------------------------------------------- geometric ----

def _gen_packing(w, rng):
    s = pick_base(w, rng, lambda t: t["ndim"] == 2)
    if s is None:
        return None
    t = w.pool[s].tag
    nl, _ = _pick_nl(w, rng, s, False)
    if nl is None:
        return None
    args = {"snapshots": ref(s), "sigmas": ref(comp(w, s, ".KK")), "neighborfile": nl, "ppp": ref(comp(w, s, ".ppp"))}
    out = outpath(w, rng, "npy")
    if out:
        args["outputfile"] = out
    maybe_default(w, rng, args, "ppp", ok=t["allper"])
    return {"args": args, "reads": {nl: w.files[nl]["src"]}, "meta": {"snaps": t["bundle"]}}


Adapter("packing_capability_2d", "geometric", "static.geometric.packing_capability_2d", gen=_gen_packing,
        files=_npy_arg(), exports=_exp_TN("float"))


def _gen_q8(w, rng):
    s = pick_base(w, rng, lambda t: t["ndim"] == 3 and t["N"] >= 7)
    if s is None:
        return None
    t = w.pool[s].tag
    args = {"snapshots": ref(s), "ppp": ref(comp(w, s, ".ppp"))}
    out = outpath(w, rng, "npy")
    if out:
        args["outputfile"] = out
    maybe_default(w, rng, args, "ppp", ok=t["allper"])
    return {"args": args, "meta": {"snaps": t["bundle"]}}


Adapter("q8_tetrahedral", "geometric", "static.geometric.q8_tetrahedral", gen=_gen_q8, files=_npy_arg(), exports=_exp_TN("float"))


# ---------------------------------------------------------------------------- nematic ----

def _gen_nematic_init(w, rng):
    s = pick_base(w, rng, lambda t: t["ndim"] == 2)
    if s is None:
        return None
    t = w.pool[s].tag
    args = {"snapshots_orientation": ref(comp(w, s, ".ori"))}
    haspos = rng.random() < 0.8
    if haspos:
        args["snapshots_position"] = ref(s)
    return {"args": args, "meta": {"snaps": t["bundle"], "T": t["T"], "haspos": haspos, "base": s, "allper": t["allper"]}}


Ctor("NematicOrder.init", "nematic", "static.nematic.NematicOrder", "NematicOrder", gen=_gen_nematic_init, faultable=False)


def _gen_tensor(w, rng):
    op = method_op(w, rng, "NematicOrder")
    if op is None:
        return None
    tag = w.pool[op["obj"]].tag
    a = op["args"]
    a["ndim"] = 2
    if rng.random() < 0.5:
        nl = [p for p in nlfiles(w, tag["base"], need_cn=False) if w.files[p]["frames"] >= tag["T"]]
        if nl:
            p = rng.choice(nl)
            a["neighborfile"] = p
            a["Nmax"] = rng.choice([30, max(1, w.files[p]["maxcn"] - 1)])
            op["reads"] = {p: w.files[p]["src"]}
    a["eigvals"] = rng.random() < 0.4
    a["outputfile"] = rng.choice(["", "", "pre_a", "pre_b"])
    maybe_default(w, rng, a, "ndim", ok=True)
    maybe_default(w, rng, a, "outputfile", ok=a["outputfile"] == "")
    return op


def _files_tensor(w, op, res):
    a = op["args"]
    pre = a.get("outputfile", "")
    if not pre:
        # the empty default is not a request for a file: the hidden '.Qtrace.npy' the routine
        # happens to leave in the working directory then is nothing the property speaks about
        # (false alarm on an independent agent's benign change that stopped writing it)
        return []
    return [(pre + (".eigval.npy" if a.get("eigvals") else ".Qtrace.npy"), res, "npy")]


Method("NematicOrder.tensor", "nematic", "static.nematic.NematicOrder.tensor", "NematicOrder", "tensor", gen=_gen_tensor,
       files=_files_tensor, exports=_exp_TN("float"), sets_prereq=True)


def _gen_nematic_spatial(w, rng):
    op = method_op(w, rng, "NematicOrder", pred=lambda t: t["haspos"], prereq=True)
    if op is None:
        return None
    tag = w.pool[op["obj"]].tag
    a = op["args"]
    a["rdelta"] = rng.choice([0.1, 0.2])
    a["ppp"] = ref(comp(w, tag["base"], ".ppp"))
    out = outpath(w, rng, "csv")
    if out:
        a["outputfile"] = out
    maybe_default(w, rng, a, "ppp", ok=tag["allper"])
    return op


Method("NematicOrder.spatial_corr", "nematic", "static.nematic.NematicOrder.spatial_corr", "NematicOrder", "spatial_corr",
       gen=_gen_nematic_spatial, files=_csv_arg("csv:8"), prereq="tensor")


def _gen_nematic_time(w, rng):
    op = method_op(w, rng, "NematicOrder", prereq=True)
    if op is None:
        return None
    a = op["args"]
    a["dt"] = rng.choice([0.002, 0.01])
    out = outpath(w, rng, "csv")
    if out:
        a["outputfile"] = out
    maybe_default(w, rng, a, "dt", ok=a["dt"] == 0.002)
    return op


Method("NematicOrder.time_corr", "nematic", "static.nematic.NematicOrder.time_corr", "NematicOrder", "time_corr",
       gen=_gen_nematic_time, files=_csv_arg("csv:8"), prereq="tensor")


# ----------------------------------------------------------------------- pair entropy ----

def _gen_s2_integral(w, rng):
    s = pick_base(w, rng)
    if s is None:
        return None
    args = {"gr": ref(comp(w, s, ".gofr")), "gr_bins": ref(comp(w, s, ".rbins")), "ndim": w.pool[s].tag["ndim"]}
    maybe_default(w, rng, args, "ndim", ok=args["ndim"] == 3)
    return {"args": args}


Adapter("s2_integral", "s2", "static.pairentropy.s2_integral", gen=_gen_s2_integral, faultable=False)


def _gen_s2_init(w, rng):
    s = pick_base(w, rng, lambda t: t["N"] <= 14)
    if s is None:
        return None
    t = w.pool[s].tag
    rdelta = rng.choice([0.05, 0.1])
    args = {"snapshots": ref(s), "sigmas": ref(comp(w, s, ".KK")), "ppp": ref(comp(w, s, ".ppp")), "rdelta": rdelta,
            "ndelta": int(0.45 * t["Lmin"] / rdelta)}
    maybe_default(w, rng, args, "ppp", ok=(t["ndim"] == 3 and t["allper"]))
    return {"args": args, "meta": {"snaps": t["bundle"], "T": t["T"]}}


Ctor("S2.init", "s2", "static.pairentropy.S2", "S2", gen=_gen_s2_init, faultable=False)


def _gen_particle_s2(w, rng):
    op = method_op(w, rng, "S2")
    if op is None:
        return None
    a = op["args"]
    a["savegr"] = rng.random() < 0.3
    out = outpath(w, rng, "npy")
    if out:
        a["outputfile"] = npy_name(out)
    maybe_default(w, rng, a, "savegr", ok=not a["savegr"])
    return op


def _files_particle_s2(w, op, res):
    a = op["args"]
    s2 = res[0] if a.get("savegr") else res
    out = []
    if a.get("outputfile"):
        out.append((npy_name(a["outputfile"]), s2, "npy"))
    if a.get("savegr"):
        out.append((npy_name("particle_gr." + a.get("outputfile", "")), res[1], "npy"))
    return out


def _exp_particle_s2(w, op, res):
    s2 = res[0] if op["args"].get("savegr") else res
    b = w.pool[op["obj"]].tag["snaps"]
    return [("", "arr", s2, {"role": "condition", "shape": "TN", "dtype": "float", "snaps": b, "result": True})]


Method("S2.particle_s2", "s2", "static.pairentropy.S2.particle_s2", "S2", "particle_s2", gen=_gen_particle_s2,
       files=_files_particle_s2, exports=_exp_particle_s2, sets_prereq=True)


def _gen_s2_corr(kind):
    def gen(w, rng):
        op = method_op(w, rng, "S2", prereq=True)
        if op is None:
            return None
        a = op["args"]
        if kind == "spatial":
            a["mean_norm"] = rng.random() < 0.5
            maybe_default(w, rng, a, "mean_norm", ok=not a["mean_norm"])
        else:
            a["dt"] = rng.choice([0.002, 0.01])
            maybe_default(w, rng, a, "dt", ok=a["dt"] == 0.002)
        out = outpath(w, rng, "csv")
        if out:
            a["outputfile"] = out
        return op
    return gen


Method("S2.spatial_corr", "s2", "static.pairentropy.S2.spatial_corr", "S2", "spatial_corr", gen=_gen_s2_corr("spatial"),
       files=_csv_arg("csv:8"), prereq="particle_s2")
Method("S2.time_corr", "s2", "static.pairentropy.S2.time_corr", "S2", "time_corr", gen=_gen_s2_corr("time"),
       files=_csv_arg("csv:6"), prereq="particle_s2")


# ---------------------------------------------------------------------------- Hessian ----

def _params(d):
    from PyMatterSim.static.hessians import InteractionParams, ModelName
    return InteractionParams(model_name=ModelName[d["model"]], ipl_n=d.get("n", 0), ipl_A=d.get("A", 0),
                             harmonic_hertz_alpha=d.get("alpha", 0))


def _gen_params(rng):
    m = rng.choice(["lennard_jones", "inverse_power_law", "harmonic_hertz"])
    d = {"model": m}
    if m == "inverse_power_law":
        d.update(n=rng.choice([10, 12, 4.5]), A=rng.choice([1.0, 1.945]))
    if m == "harmonic_hertz":
        d.update(alpha=rng.choice([2, 2.5]))
    return d


def _gen_pair_init(w, rng):
    sigma = rng.choice([1.0, 0.88, 1.2])
    return {"args": {"r": round(sigma * rng.uniform(0.8, 0.99), 5), "epsilon": rng.choice([1.0, 1.5, 0.5]), "sigma": sigma,
                     "r_c": sigma * rng.choice([1.0, 2.5]), "shift": rng.random() < 0.7}}


Ctor("PairInteractions.init", "hessian", "static.hessians.PairInteractions", "PairInteractions", gen=_gen_pair_init, faultable=False)


def _gen_pair_method(name):
    def gen(w, rng):
        op = method_op(w, rng, "PairInteractions")
        if op is None:
            return None
        if name == "caller":
            op["args"]["params"] = _gen_params(rng)
        elif name == "inverse_power_law":
            op["args"].update(n=rng.choice([10, 12, 4.5]), A=rng.choice([1.0, 1.945]))
            maybe_default(w, rng, op["args"], "A", ok=op["args"]["A"] == 1.0)
        elif name == "harmonic_hertz":
            op["args"]["alpha"] = rng.choice([2, 2.5])
        return op
    return gen


def _call_caller(w, op, obj, kw):
    return obj.caller(_params(kw["params"]))


Method("PairInteractions.caller", "hessian", "static.hessians.PairInteractions.caller", "PairInteractions", "caller",
       gen=_gen_pair_method("caller"), call=_call_caller, faultable=False)
for _n in ("lennard_jones", "inverse_power_law", "harmonic_hertz"):
    Method(f"PairInteractions.{_n}", "hessian", f"static.hessians.PairInteractions.{_n}", "PairInteractions", _n,
           gen=_gen_pair_method(_n), faultable=False)


def _gen_hessian_init(w, rng):
    s = pick_base(w, rng, lambda t: any(t["mask"]) and t["N"] <= 14)
    if s is None:
        return None
    t = w.pool[s].tag
    harmonic = rng.random() < 0.35
    # the harmonic / Hertzian model is meant for r_cut = sigma, but nothing forbids the usual
    # wide cutoff table (alpha = 2 is then still finite; otherwise both worlds see the same NaN)
    wide = harmonic and rng.random() < 0.3
    args = {"snapshot": ref(s, rng.randrange(t["T"])), "masses": ref(comp(w, s, ".masses")), "epsilons": ref(comp(w, s, ".eps")),
            "sigmas": ref(comp(w, s, ".KK")), "r_cuts": ref(comp(w, s, ".KK" if harmonic and not wide else ".rcut")),
            "ppp": ref(comp(w, s, ".ppp")), "shiftpotential": rng.random() < 0.7}
    maybe_default(w, rng, args, "shiftpotential", ok=args["shiftpotential"])
    return {"args": args, "meta": {"snaps": t["bundle"], "harmonic": harmonic, "ndim": t["ndim"], "base": s}}


Ctor("HessianMatrix.init", "hessian", "static.hessians.HessianMatrix", "HessianMatrix", gen=_gen_hessian_init, faultable=False)


def _gen_pair_matrix(w, rng):
    op = method_op(w, rng, "HessianMatrix")
    if op is None:
        return None
    tag = w.pool[op["obj"]].tag
    v = comp(w, tag["base"], ".cv")
    e = w.pool[v]
    op["args"] = {"Rji": {"$": v, "frame": 0, "sub": rng.randrange(e.value.shape[1])},
                  "dudrs": [rng.choice([-1.2, 0.4]), rng.choice([0.0, -0.01]), rng.choice([30.0, 2.5])]}
    return op


def _call_pair_matrix(w, op, obj, kw):
    a = op["args"]
    R = w.val({"$": a["Rji"]["$"], "frame": 0})[a["Rji"]["sub"]]
    return obj.pair_matrix(R, list(a["dudrs"]))


Method("HessianMatrix.pair_matrix", "hessian", "static.hessians.HessianMatrix.pair_matrix", "HessianMatrix", "pair_matrix",
       gen=_gen_pair_matrix, call=_call_pair_matrix, faultable=False)


def _gen_diag(w, rng):
    op = method_op(w, rng, "HessianMatrix")
    if op is None:
        return None
    tag = w.pool[op["obj"]].tag
    p = _gen_params(rng)
    if tag["harmonic"] != (p["model"] == "harmonic_hertz") and rng.random() < 0.7:
        # mostly the model the object's cutoff table was chosen for; sometimes any model on any
        # object (one HessianMatrix evaluated with several potentials in a row)
        p = {"model": "harmonic_hertz", "alpha": 2} if tag["harmonic"] else {"model": "lennard_jones"}
    a = op["args"]
    a["params"] = p
    a["saveevecs"] = rng.random() < 0.7
    a["savehessian"] = rng.random() < 0.3
    a["outputfile"] = rng.choice(["", "pre_a", "pre_b"])
    maybe_default(w, rng, a, "outputfile", ok=a["outputfile"] == "")
    maybe_default(w, rng, a, "saveevecs", ok=a["saveevecs"])
    return op


def _call_diag(w, op, obj, kw):
    kw = dict(kw)
    params = _params(kw.pop("params"))
    return obj.diagonalize_hessian(params, **kw)


Method("HessianMatrix.diagonalize_hessian", "hessian", "static.hessians.HessianMatrix.diagonalize_hessian", "HessianMatrix",
       "diagonalize_hessian", gen=_gen_diag, call=_call_diag, weight=0.8)


# ----------------------------------------------------------------------- vector fields ----

def _pick_vec(w, rng, s, frame0=False):
    c = conds(w, s, ("TNd",), ("float",))
    if not c:
        return None
    n = rng.choice(c)
    return ref(n, 0 if frame0 else rng.randrange(len(w.pool[n].value)))


def _gen_pr(w, rng):
    s = pick_base(w, rng)
    if s is None:
        return None
    v = _pick_vec(w, rng, s)
    return None if v is None else {"args": {"vector": v}}


Adapter("participation_ratio", "vector", "static.vector.participation_ratio", gen=_gen_pr, faultable=False)


def _gen_vec_nl(with_snapshot):
    def gen(w, rng):
        s = pick_base(w, rng)
        if s is None:
            return None
        t = w.pool[s].tag
        nl = nlfiles(w, s)
        v = _pick_vec(w, rng, s, frame0=True)
        if not nl or v is None:
            return None
        p = rng.choice(nl)
        args = {"vector": v, "neighborfile": p}
        if with_snapshot:
            args = {"snapshot": ref(s, 0), "vector": v, "ppp": ref(comp(w, s, ".ppp")), "neighborfile": p}
        return {"args": args, "reads": {p: w.files[p]["src"]}}
    return gen


Adapter("local_vector_alignment", "vector", "static.vector.local_vector_alignment", gen=_gen_vec_nl(False))
Adapter("phase_quotient", "vector", "static.vector.phase_quotient", gen=_gen_vec_nl(False))
Adapter("divergence_curl", "vector", "static.vector.divergence_curl", gen=_gen_vec_nl(True))


def _gen_vibrability(w, rng):
    s = pick_base(w, rng)
    if s is None:
        return None
    args = {"eigenfrequencies": ref(comp(w, s, ".eigf")), "eigenvectors": ref(comp(w, s, ".eigv")),
            "num_of_partices": w.pool[s].tag["N"]}
    out = outpath(w, rng, "npy")
    if out:
        args["outputfile"] = out
    return {"args": args}


Adapter("vibrability", "vector", "static.vector.vibrability", gen=_gen_vibrability, files=_npy_arg())


# On the pinned pandas both of these raise (in-place division on a read-only array) with and
# without history; they are still called: whatever they do to their inputs before that line is
# judged (I1), and the day the environment lets them finish, I2 / I3 apply unchanged.
def _gen_vdsq(w, rng):
    s = pick_base(w, rng, lambda t: t["cell"] == "ortho")
    if s is None:
        return None
    v = _pick_vec(w, rng, s)
    if v is None:
        return None
    args = {"snapshot": ref(s, v["frame"]), "qvector": ref(comp(w, s, ".qvec")), "vector": v}
    out = outpath(w, rng, "csv")
    if out:
        args["outputfile"] = out
    return {"args": args}


def _files_vdsq(w, op, res):
    p = op["args"].get("outputfile")
    if not p:
        return []
    return [(p if p.endswith(".csv") else p + ".csv", res[1], "csv:8")]


Adapter("vector_decomposition_sq", "vector", "static.vector.vector_decomposition_sq", gen=_gen_vdsq, files=_files_vdsq, weight=0.5)


def _gen_vfc(w, rng):
    s = pick_base(w, rng, lambda t: t["cell"] == "ortho" and t["lin"])
    if s is None:
        return None
    c = conds(w, s, ("TNd",), ("float",), maxdepth=0)
    if not c:
        return None
    return {"args": {"snapshots": ref(s), "qvector": ref(comp(w, s, ".qvec")), "vectors": ref(rng.choice(c)),
                     "dt": rng.choice([0.002, 0.01]), "outputfile": rng.choice(["pre_a", "pre_b"])}}


Adapter("vector_fft_corr", "vector", "static.vector.vector_fft_corr", gen=_gen_vfc, weight=0.4)


# -------------------------------------------------- library output files re-enter the pool ----

def _gen_load_evecs(w, rng):
    c = sorted(p for p, f in w.files.items() if f["kind"] == "evecs")
    if not c:
        return None
    p = rng.choice(c)
    return {"args": {"path": p}, "reads": {p: w.files[p]["src"]}, "meta": {"snaps": w.files[p]["snaps"], "N": w.files[p]["N"]}}


def _call_load(w, op, kw):
    with open(kw["path"], "rb") as f:        # the analyst loads what the library saved earlier
        return np.load(f, allow_pickle=False)


def _exp_load_evecs(w, op, res):
    return [("", "arr", res, {"role": "eigvec_file", "snaps": op["meta"]["snaps"], "N": op["meta"]["N"], "result": True})]


Adapter("client.load_evecs", "hessian", "static.hessians.HessianMatrix.diagonalize_hessian#load", covers=[],
        gen=_gen_load_evecs, call=_call_load, exports=_exp_load_evecs, weight=3.0)


def _out_diag(w, op):
    a = op["args"]
    if not a.get("saveevecs", True):
        return []
    tag = w.pool[op["obj"]].tag if op["obj"] in w.pool else None
    if tag is None:
        return []
    pre = a.get("outputfile") or a["params"]["model"]
    return [(pre + ".evecs.npy", {"kind": "evecs", "snaps": tag["snaps"], "N": w.pool[tag["base"]].tag["N"]})]


from worlds.c18_base import REG  # noqa: E402
REG["HessianMatrix.diagonalize_hessian"]._outputs = _out_diag


def _gen_pr_modes(w, rng):
    c = sorted(n for n, e in w.pool.items() if e.kind == "arr" and e.tag.get("role") == "eigvec_file")
    if not c:
        return None
    n = rng.choice(c)
    e = w.pool[n]
    return {"args": {"evecs": ref(n), "mode": rng.randrange(e.value.shape[1]), "N": e.tag["N"]}}


def _call_pr_modes(w, op, kw):
    from PyMatterSim.static.vector import participation_ratio
    ev = kw["evecs"]
    return participation_ratio(ev[:, kw["mode"]].reshape(kw["N"], -1))     # a (strided) view of the loaded matrix


Adapter("participation_ratio.of_mode", "vector", "static.vector.participation_ratio#mode", covers=[], gen=_gen_pr_modes,
        call=_call_pr_modes, faultable=False)


def _gen_vib_modes(w, rng):
    c = sorted(n for n, e in w.pool.items() if e.kind == "arr" and e.tag.get("role") == "eigvec_file")
    if not c:
        return None
    n = rng.choice(c)
    e = w.pool[n]
    args = {"evecs": ref(n), "N": e.tag["N"], "skip": e.value.shape[0] // e.tag["N"]}
    out = outpath(w, rng, "npy")
    if out:
        args["outputfile"] = out
    return {"args": args}


def _call_vib_modes(w, op, kw):
    from PyMatterSim.static.vector import vibrability
    ev = kw["evecs"][:, kw["skip"]:]                   # drop the zero modes: a column-sliced view
    freqs = np.linspace(0.5, 2.0, ev.shape[1])
    return vibrability(freqs, ev, kw["N"], kw.get("outputfile", ""))


Adapter("vibrability.of_modes", "vector", "static.vector.vibrability#modes", covers=[], gen=_gen_vib_modes, call=_call_vib_modes,
        files=_npy_arg())
