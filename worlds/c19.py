"""World C19: header writer -> disk -> readers, HOOMD frame peers (stubs), LAMMPS log
producer (stub) with crash points.

Actors: a dump-writer client that appends frames built with the real write_dump_header,
reader clients running the real dump / vector / additions / centre-type readers on paths
that keep growing, duck-typed HOOMD trajectory and DCD peers fed to the real converters,
and a LAMMPS log producer whose output may be cut at any byte.
"""
import math
import os

import numpy as np

from simkit import simio
from simkit.engine import Refuse, Violation
from simkit.worldbase import BUFS, CHUNKS, LINE_FAULTS, WorldBase

DUMPS = ("traj_a.atom", "traj_b.atom", "traj_c.atom")
LOGS = ("log_a.lammps", "log_b.lammps")
HOOMD_PATHS = ("hoomd/run_a.gsd", "hoomd/run_b.gsd", "data.v1/run.gsd")
EXTRA_NAMES = ("vx", "vy", "vz", "q", "order", "Q6", "c_pe")
THERMO = ("Temp", "E_pair", "E_mol", "TotEng", "Press", "Volume", "KinEng", "c_msd[4]")
CHATTER = (
    "LAMMPS (2 Aug 2023)",
    "Reading data file ...",
    "  orthogonal box = (0 0 0) to (10 10 10)",
    "Neighbor list info ...",
    "  update: every = 1 steps, delay = 0 steps, check = yes",
    "Setting up Verlet run ...",
    "  Unit style    : lj",
    "  Current step  : 0",
    "Per MPI rank memory allocation (min/avg/max) = 3.2 | 3.2 | 3.2 Mbytes",
    "WARNING: Using a manybody potential with bonds/angles/dihedrals",
    "run 100",
    "Performance: 24466.046 tau/day, 56.634 timesteps/s",
    "Total wall time: 0:00:01",
    "Stepping stone: this line only looks like a header",
    "",
)


def fmt_float(rng, v):
    k = rng.integers(0, 4)
    if k == 0:
        return f"{v:.6f}"
    if k == 1:
        return f"{v:.10g}"
    if k == 2:
        return f"{v:.5e}"
    return repr(float(v))


class FakeFrame:
    class _NS:
        pass

    def __init__(self, step, dims, box, typeid, position):
        self.configuration = FakeFrame._NS()
        self.configuration.step = step
        self.configuration.dimensions = dims
        self.configuration.box = box
        self.particles = FakeFrame._NS()
        self.particles.N = len(typeid)
        self.particles.typeid = typeid
        self.particles.position = position


class FakeTrajectory:
    """Duck-typed stand-in for gsd.hoomd.HOOMDTrajectory (indexing, iteration, len).

    peer_fault = (n, exception type name): the n-th frame fetch (indexing and iteration both
    count) fails once, the way a read from a failing disk or a Ctrl-C inside the peer would."""

    def __init__(self, frames, peer_fault=None):
        self._frames = frames
        self._fault = peer_fault
        self._fetches = 0
        self.fired = False

    def __len__(self):
        return len(self._frames)

    def _fetch(self, i):
        self._fetches += 1
        if self._fault and not self.fired and self._fetches == self._fault[0]:
            self.fired = True
            if self._fault[1] == "KeyboardInterrupt":
                raise simio.SimInterrupt("simulated cancellation inside the peer's frame fetch")
            raise OSError(5, "simulated I/O error inside the peer's frame fetch")
        return self._frames[i]

    def __getitem__(self, i):
        return self._fetch(i)

    def __iter__(self):
        for i in range(len(self._frames)):
            yield self._fetch(i)


class FakeDCD:
    """Duck-typed stand-in for mdtraj.formats.DCDTrajectoryFile."""

    def __init__(self, xyz, lengths):
        self._xyz, self._lengths = xyz, lengths
        self._pos = 0
        self.closed = False

    def read(self, n_frames=None):
        """Like the real reader: the frames from the current position on; the position moves."""
        a = self._pos
        b = len(self._xyz) if n_frames is None else min(len(self._xyz), a + n_frames)
        self._pos = b
        ang = np.full((b - a, 3), 90.0, dtype=np.float32)
        return self._xyz[a:b], self._lengths[a:b], ang

    def seek(self, frame):
        self._pos = frame

    def tell(self):
        return self._pos

    def close(self):
        self.closed = True


def make_hoomd(recipe):
    rng = np.random.default_rng(recipe["subseed"])
    ndim, N, T = recipe["ndim"], recipe["N"], recipe["T"]
    K = recipe["K"]
    L = rng.uniform(3.0, 12.0, size=3).astype(np.float32)
    if ndim == 2:
        L[2] = 1.0
    frames = []
    # gsd itself delivers uint32; a duck-typed frame may carry any integer type
    typeid = rng.integers(0, K, size=N).astype(np.dtype(recipe.get("tid_dtype", "uint32")))
    step = int(rng.integers(0, 1000))
    if recipe.get("bigstep"):
        step += 2 ** 63 - 10 ** 6                     # late in a very long run: beyond int64 after a few frames
    for _t in range(T):
        n_t = N
        if recipe.get("nvary") and _t > 0:
            n_t = int(rng.integers(1, N + 1))           # particle number changing between frames (GSD only)
        if recipe.get("grow") and _t == 0 and T > 1:
            n_t = max(1, N // 2)                        # the first frame is the small one
        pos = ((rng.random((n_t, 3)) - 0.5) * L).astype(np.float32)
        if ndim == 2:
            pos[:, 2] = 0.0
        Lt = L * (1.0 + (rng.uniform(-0.05, 0.05) if recipe.get("boxvary") and _t > 0 else 0.0))
        box = np.array([Lt[0], Lt[1], Lt[2], 0, 0, 0], dtype=np.float32)
        # real GSD files store unchanged arrays once: frames may hand out the very same object
        tid = typeid if (recipe.get("share_typeid") and n_t == N) else typeid[:n_t].copy()
        frames.append(FakeFrame(np.uint64(step) if recipe.get("bigstep") else step, ndim, box, tid, pos))
        step += int(rng.integers(1, 5000)) if not recipe.get("bigstep") else int(rng.integers(1, 10 ** 6))
    xyz = (rng.normal(0, 20.0, size=(T, N, 3))).astype(np.float32)
    if ndim == 2:
        xyz[:, :, 2] = 0.0
    lengths = np.tile(L[None, :], (T, 1))
    return frames, xyz, lengths


# text redrawn in place with a bare carriage return (progress meters): one "line" on a terminal,
# several for every reader that honours universal newlines
CHATTER_CR = (
    "Equilibrating   10 %\rEquilibrating   50 %\rEquilibrating  100 %",
    "  minimising ... |\r  minimising ... /\r  minimising ... done",
)

CHATTER_UNICODE = (
    'print "σ = 3.4 Å, ε/k_B = 120 K"',
    "# Daten aus /home/müller/läufe/T=0.45 — zweiter Versuch",
    "  units: kcal/mol·Å²",
    "variable β equal 1.0/0.45",
)


def make_log(recipe):
    """-> (text, sections) ; sections: list of dict(header tokens, rows (list of token lists),
    start/end byte offsets of the header line and of the 'Loop time' line)."""
    rng = np.random.default_rng(recipe["subseed"])
    nsec = recipe["nsec"]
    lines = []
    sections = []

    eol = "\r\n" if recipe.get("crlf") else "\n"
    pool = CHATTER + CHATTER_UNICODE if recipe.get("unicode") else CHATTER
    if recipe.get("cr_meter"):
        pool = pool + CHATTER_CR

    def chatter(k):
        for _ in range(k):
            lines.append(pool[int(rng.integers(0, len(pool)))])

    chatter(int(rng.integers(0, 4)))
    step = 0
    crashed = set(recipe.get("crashed", []))      # runs in the middle of the file that never printed 'Loop time'
    for s in range(nsec + (1 if recipe["tail"] != "none" else 0)):
        unfinished = s == nsec
        killed = (not unfinished) and s in crashed and s < nsec - 1
        ncol = int(rng.integers(1, 6))
        cols = ["Step"] + [THERMO[i] for i in rng.permutation(len(THERMO))[:ncol]]
        nrows = int(rng.integers(0 if not (unfinished or killed) else 1, recipe["maxrows"] + 1))
        trailing = " " if rng.random() < 0.5 else ""
        hdr_line = len(lines)
        lines.append(" ".join(cols) + trailing)
        rows = []
        for _r in range(nrows):
            toks = [str(step)]
            for _c in range(ncol):
                v = rng.normal(0, 3.0) * 10 ** int(rng.integers(-3, 4))
                toks.append(f"{v:.8g}" if rng.random() < 0.8 else str(int(v)))
                if recipe.get("nonfinite") and rng.random() < 0.15:
                    # what LAMMPS prints for 0/0 or overflowing thermo quantities
                    toks[-1] = ["nan", "-nan", "inf", "-inf"][int(rng.integers(0, 4))]
            step += int(rng.integers(1, 1000))
            width = int(rng.integers(1, 4))
            lines.append((" " * width) + (" " * width).join(toks) + trailing)
            rows.append(toks)
        if unfinished:
            sections.append({"cols": cols, "rows": rows, "hdr_line": hdr_line, "loop_line": None})
            break
        if killed:
            # the run died here; the restarted job went on writing to the same log
            sections.append({"cols": cols, "rows": rows, "hdr_line": hdr_line, "loop_line": None, "killed": True})
            lines.append(CHATTER[0])
            chatter(int(rng.integers(0, 3)))
            continue
        loop_line = len(lines)
        lines.append(f"Loop time of {abs(rng.normal(1, 0.5)):.5f} on {int(rng.integers(1, 9))} procs "
                     f"for {nrows} steps with {int(rng.integers(10, 5000))} atoms")
        sections.append({"cols": cols, "rows": rows, "hdr_line": hdr_line, "loop_line": loop_line})
        chatter(int(rng.integers(0, 4)))
    text = eol.join(lines) + eol
    if recipe["tail"] == "partial-row" and sections and sections[-1]["loop_line"] is None:
        text = text[:-len(eol) - int(rng.integers(0, 3))]      # last row cut short, no newline
    # character offsets (cuts are made between characters, never inside a multi-byte one)
    offs = [0]
    for ln in lines:
        offs.append(offs[-1] + len(ln) + len(eol))
    for sec in sections:
        sec["hdr_off"] = (offs[sec["hdr_line"]], offs[sec["hdr_line"] + 1] - len(eol))
        if sec["loop_line"] is not None:
            sec["loop_off"] = (offs[sec["loop_line"]], offs[sec["loop_line"] + 1] - len(eol))
        sec["rows_off"] = [(offs[sec["hdr_line"] + 1 + i], offs[sec["hdr_line"] + 2 + i] - len(eol)) for i in range(len(sec["rows"]))]
    return text, sections


def cut_class(sections, cut, total):
    if cut >= total:
        return "whole-file"
    for sec in sections:
        a, b = sec["hdr_off"]
        if a < cut <= b:
            return "in-step-header"
        for i, (ra, rb) in enumerate(sec["rows_off"]):
            if ra < cut <= rb:
                return "in-first-row" if i == 0 else "in-row"
            if cut == ra:
                return "before-first-row" if i == 0 else "between-rows"
        if sec.get("loop_off"):
            la, lb = sec["loop_off"]
            if cut == la:
                return "before-loop-line"
            if la < cut <= lb:
                return "in-loop-line"
    return "in-chatter"


class VirtualClock:
    def __init__(self, values):
        self.values = list(values)
        self.calls = 0

    def __call__(self):
        v = self.values[min(self.calls, len(self.values) - 1)]
        self.calls += 1
        return v


class World(WorldBase):
    prop = "C19"

    @staticmethod
    def components():
        return {
            "real": ["writer.lammps_writer.write_dump_header", "reader.dump_reader.DumpReader",
                     "reader.lammps_reader_helper.{read_lammps_wrapper, read_lammps_vector_wrapper, "
                     "read_lammps_centertype_wrapper, read_additions}", "reader.gsd_reader_helper.{read_gsd, read_gsd_dcd, read_gsd_wrapper, read_gsd_dcd_wrapper}",
                     "reader.simulation_log.read_lammpslog", "CPython io stack on tmpfs", "pandas.read_csv"],
            "stubbed": ["HOOMD trajectory / DCD peers: duck-typed in-process fakes; gsd / gsd.hoomd / mdtraj.formats are stub modules "
                        "(stub file format read through the simulated disk) behind the library's own wrappers",
                        "LAMMPS as dump producer: harness client using the real header writer plus its own atom lines",
                        "LAMMPS as log producer: stub emitting the documented thermo layout",
                        "clock: reader.dump_reader.time replaced by a scripted virtual clock"],
            "not_reached": [],
        }

    @staticmethod
    def make_swarm(rng, batch):
        sw = {
            "nops": rng.randint(8, 28),
            "chunk": rng.choice(CHUNKS),
            "buf": rng.choice(BUFS),
            "dumps": rng.sample(DUMPS, rng.randint(1, 3)),
            "maxn": rng.choice([3, 6, 12, 12, 40, 120]),     # two- and three-digit ids and counts now and then
            "huge": rng.random() < float(os.environ.get("VERIF_C19_HUGE", "0.015")),   # one dump with >= 5000 atoms per frame
            "w_dump": rng.choice([1, 3, 5]),
            "w_hoomd": rng.choice([0, 1, 2]),
            "w_log": rng.choice([0, 1, 3]),
            "sweep": 12 if os.environ.get("VERIF_TIER", "quick") == "quick" else 0,   # 0 = every byte
            "p_nest": rng.choice([0.0, 0.1, 0.25]),
            "faults": [],
        }
        if batch == "fault":
            sw["faults"] = rng.sample(["short_read", "oserror_read", "clock_jump", "interrupt", "interrupt_line", "alloc_line"], rng.randint(1, 4))
            sw["p_fault"] = rng.choice([0.2, 0.4])
            sw["chunk"] = rng.choice(CHUNKS[:4])
            sw["buf"] = rng.choice(BUFS[:4])
        return sw

    def __init__(self, ctx, swarm):
        super().__init__(ctx, swarm)
        self.dumps = {}      # path -> dict(ndim, names, frames[list], const_n)
        self.logs = {}       # path -> dict(text, sections)
        self.readers = {}    # name -> long-lived DumpReader
        self.next_r = 0
        self.hoomd = {}      # stub .gsd path -> dict(recipe, dcd)

    # ---------------------------------------------------------------- generation ----
    def gen(self, rng):
        sw = self.swarm
        choices = ["append"] * (3 * sw["w_dump"]) + ["data_header"]
        if self.dumps:
            choices += ["read_dump", "read_vector", "read_center", "read_additions", "reread"] * sw["w_dump"]
        choices += ["hoomd", "hoomd_write"] * sw["w_hoomd"]
        if self.hoomd:
            choices += ["hoomd_read", "hoomd_read"] * sw["w_hoomd"]
            if self.readers:
                choices += ["reread"] * sw["w_hoomd"]
        choices += ["write_log"] * sw["w_log"]
        if self.logs:
            choices += ["read_log", "sweep_log"] * sw["w_log"]
        if not choices:
            choices = ["append"]
        kind = rng.choice(choices)
        op = getattr(self, "gen_" + kind)(rng)
        if op is None:
            return self.gen_append(rng)
        readers = ("read_dump", "read_vector", "read_center", "read_additions", "read_log", "hoomd_read")
        if op["op"] in readers and "fault" not in op and self.dumps and rng.random() < sw.get("p_nest", 0.0):
            # another client's whole read runs while this one is inside an I/O call
            inner = getattr(self, "gen_" + rng.choice(["read_dump", "read_vector", "read_center", "read_additions"]))(rng)
            if inner is not None and inner["op"] in readers and inner.get("via") != "keep":
                op["nest"] = {"at": rng.randint(1, 60), "op": inner}
                return op
        if sw["faults"] and op["op"] in ("read_dump", "read_vector", "read_center", "read_additions", "read_log", "reread", "hoomd_read") \
                and rng.random() < sw["p_fault"]:
            k = rng.choice(sw["faults"])
            if k == "clock_jump":
                if op["op"] in ("read_dump", "reread") and op.get("via") != "wrapper":
                    op["clock"] = [rng.choice([0.0, 1.7e9, -5.0]), rng.choice([-1e6, 0.0, 1.7e9 + 3600, 1e-9])]
            elif k in LINE_FAULTS:
                # cancelled / out of memory between two source lines of the reader; placed blindly,
                # log-uniform over 1..3000 lines (short reads execute a few dozen, long ones thousands)
                op["fault"] = {"kind": k, "at": int(math.exp(rng.uniform(0.0, math.log(3000.0))))}
            else:
                op["fault"] = {"kind": k, "at": rng.randint(1, 60)}
        return op

    def gen_append(self, rng):
        sw = self.swarm
        path = rng.choice(sw["dumps"])
        d = self.dumps.get(path)
        if d is None:
            ndim = rng.choice([2, 3])
            nextra = rng.randint(0, 3)
            names = rng.sample(EXTRA_NAMES, nextra)
            const_n = rng.random() < 0.6
            n = rng.randint(1, sw["maxn"])
            if sw.get("huge") and not any(f["frames"] and f["frames"][0]["n"] >= 4000 for f in self.dumps.values()):
                n = rng.randint(5000, 6500)           # sizes at which bulk / block code paths would switch on
                const_n = rng.random() < 0.5
            K = rng.randint(1, 4)
            coord = rng.choice(["x", "x", "xu"])
            head = {"ndim": ndim, "names": names, "const_n": const_n, "K": K, "coord": coord,
                    "addson_none": nextra == 0 and rng.random() < 0.5}
        else:
            head = None
            n = d["frames"][0]["n"] if d["const_n"] else rng.randint(1, sw["maxn"])
            if not d["const_n"] and d["frames"][0]["n"] >= 4000:
                n = rng.randint(4100, 6500)
            if len(d["frames"]) >= 2 and d["frames"][0]["n"] >= 4000:
                return self.gen_read_vector(rng)     # two large frames are enough: read instead
        return {"op": "append", "path": path, "head": head, "n": n,
                "timestep": rng.choice([0, rng.randrange(10 ** 3), rng.randrange(10 ** 9), 2 ** 53 + 1 + rng.randrange(10 ** 6),
                                        2 ** 62 + rng.randrange(10 ** 9)]),
                # how the caller holds the integers: plain ints, numpy integers (array elements, GSD steps)
                "ints": rng.choice(["int", "int", "np.int64", "np.uint64"]),
                "bounds_as": rng.choice(["ndarray", "ndarray", "list", "tuple"]),
                "subseed": rng.randrange(1 << 40)}

    def gen_data_header(self, rng):
        return {"op": "data_header", "ndim": rng.choice([2, 3]), "n": rng.choice([1, rng.randint(1, 200), rng.randrange(10 ** 7)]),
                "K": rng.randint(1, 12), "subseed": rng.randrange(1 << 40)}

    def _some_dump(self, rng, pred=lambda d: True):
        c = sorted(p for p, d in self.dumps.items() if pred(d))
        return rng.choice(c) if c else None

    def gen_read_dump(self, rng):
        p = self._some_dump(rng)
        return {"op": "read_dump", "path": p, "via": rng.choice(["DumpReader", "wrapper", "keep"])}

    def gen_reread(self, rng):
        ok = [n for n in sorted(self.readers) if self._reread_ok(n)]
        if not ok:
            return self.gen_read_dump(rng) if self.dumps else None
        name = rng.choice(ok)
        op = {"op": "reread", "reader": name}
        rd, path, kind, opts = self.readers[name]
        if kind in ("dump", "center", "vector") and rng.random() < 0.2:
            # the client points its reader at another dump (same dimension) by assigning the attribute
            others = sorted(p for p, d in self.dumps.items() if p != path and d["ndim"] == rd.ndim
                            and (kind != "vector" or max(opts) <= 2 + d["ndim"] + len(d["names"])))
            if others:
                op["refile"] = rng.choice(others)
        lk = [k for k in self.swarm["faults"] if k in LINE_FAULTS]
        if lk and not path.endswith(".gsd") and rng.random() < 0.5:
            # crash-point sweep of a long-lived reader: its read is cancelled (or runs out of
            # memory) at instants spread over the whole execution; the read after them is judged
            op["sweep"] = {"exc": rng.choice(lk), "m": rng.choice([8, 16, 32]), "seed": rng.randrange(1 << 30)}
        if kind in ("center", "vector") and rng.random() < 0.6:
            # between two reads the client changes the options of its long-lived reader: the
            # object it passed (held by the reader by reference) edited in place, or a new one assigned
            d = self.dumps[op.get("refile", path)]
            how = rng.choice(["inplace", "assign"])
            if kind == "center":
                keys = sorted(opts)
                if rng.random() < 0.7:
                    new = {str(k): rng.choice([0, 1, 2, 3, 4, 5, 6, 7, 8, 9]) for k in keys}            # same keys, other labels
                else:
                    new = self.gen_read_center(rng)["moltypes"] if path in self.dumps else {str(k): 1 for k in keys}
                op["edit"] = {"how": how, "moltypes": new}
            else:
                ncols = 2 + d["ndim"] + len(d["names"])
                k = len(opts) if rng.random() < 0.7 else rng.randint(1, 3)
                op["edit"] = {"how": how, "cols": [rng.randint(3, ncols) for _ in range(k)]}
        return op

    def _reread_ok(self, name):
        rd, path, _kind, _opts = self.readers[name]
        if path.endswith(".gsd"):
            h = self.hoomd.get(path)
            return h is not None and h["recipe"]["ndim"] == rd.ndim and (h["dcd"] or rd.filetype.name != "GSD_DCD")
        return path in self.dumps and self.dumps[path]["ndim"] == rd.ndim

    def gen_read_vector(self, rng):
        p = self._some_dump(rng)
        d = self.dumps[p]
        ncols = 2 + d["ndim"] + len(d["names"])
        k = rng.randint(1, 3)
        cols = [rng.randint(3, ncols) for _ in range(k)]
        return {"op": "read_vector", "path": p, "cols": cols, "via": rng.choice(["DumpReader", "wrapper", "keep"])}

    def gen_read_additions(self, rng):
        p = self._some_dump(rng, lambda d: d["const_n"])
        if p is None:
            return None
        d = self.dumps[p]
        ncols = 2 + d["ndim"] + len(d["names"])
        return {"op": "read_additions", "path": p, "ncol": rng.randint(1, ncols - 1)}

    def gen_read_center(self, rng):
        p = self._some_dump(rng)
        d = self.dumps[p]
        K = d["K"]
        keys = rng.sample(range(1, K + 1), rng.randint(1, K))
        if rng.random() < 0.2:
            keys.append(K + 3)                       # a key no atom has
        mol = {str(k): rng.choice([0, 0, 1, 2, 3, 4, 5, 6, 7, 8, 9, -1, 10 ** 6]) for k in keys}     # any label, zero included
        return {"op": "read_center", "path": p, "moltypes": mol, "via": rng.choice(["DumpReader", "wrapper", "keep"]),
                "mapkind": rng.choice(["dict", "dict", "dict", "defaultdict", "Counter", "OrderedDict"])}

    def gen_hoomd(self, rng):
        dcd = rng.random() < 0.5
        op = {"op": "hoomd", "dcd": dcd, "times": rng.choice([1, 1, 2, 3]), "recipe": self._hoomd_recipe(rng, dcd)}
        if self.swarm["faults"] and rng.random() < 0.5:
            op["peer_fault"] = {"fetch": rng.randint(1, op["recipe"]["T"] + 1), "exc": rng.choice(["OSError", "KeyboardInterrupt"])}
        return op

    def _hoomd_recipe(self, rng, dcd):
        return {"ndim": rng.choice([2, 3]), "N": rng.randint(1, 10), "T": rng.randint(1, 5),
                "K": rng.randint(1, 4), "nvary": (not dcd) and rng.random() < 0.3, "grow": (not dcd) and rng.random() < 0.15,
                "share_typeid": rng.random() < 0.4, "boxvary": rng.random() < 0.3,
                "bigstep": rng.random() < 0.12,
                "tid_dtype": rng.choice(["uint32", "uint32", "uint32", "int32", "int32", "int64", "uint8"]),
                "subseed": rng.randrange(1 << 40)}

    def gen_hoomd_write(self, rng):
        dcd = rng.random() < 0.6
        return {"op": "hoomd_write", "path": rng.choice(HOOMD_PATHS), "dcd": dcd, "recipe": self._hoomd_recipe(rng, dcd)}

    def gen_hoomd_read(self, rng):
        if not self.hoomd:
            return None
        path = rng.choice(sorted(self.hoomd))
        h = self.hoomd[path]
        return {"op": "hoomd_read", "path": path, "dcd": h["dcd"] and rng.random() < 0.6,
                "via": rng.choice(["wrapper", "DumpReader", "keep"])}

    def gen_write_log(self, rng):
        return {"op": "write_log", "path": rng.choice(LOGS),
                "recipe": {"nsec": rng.randint(0, 4), "maxrows": rng.choice([2, 6, 6, 40]),
                           "tail": rng.choice(["none", "none", "full-rows", "partial-row"]),
                           "nonfinite": rng.random() < 0.3, "unicode": rng.random() < 0.3, "crlf": rng.random() < 0.15,
                           "cr_meter": rng.random() < 0.25,
                           "crashed": sorted(rng.sample(range(4), rng.randint(1, 2))) if rng.random() < 0.2 else [],
                           "subseed": rng.randrange(1 << 40)}}

    def gen_read_log(self, rng):
        return {"op": "read_log", "path": rng.choice(sorted(self.logs))}

    def gen_sweep_log(self, rng):
        p = rng.choice(sorted(self.logs))
        total = len(self.logs[p]["text"])
        k = self.swarm["sweep"]
        if k == 0:
            cuts = "all"
        else:
            cuts = sorted({rng.randint(1, total) for _ in range(k)})
            # bias: a few cuts right around the structural lines
            secs = self.logs[p]["sections"]
            for sec in secs:
                for (a, b) in [sec["hdr_off"]] + ([sec["loop_off"]] if sec.get("loop_off") else []) + sec["rows_off"][:1]:
                    if rng.random() < 0.5:
                        cuts.append(rng.randint(a, min(total, b + 1)))
            cuts = sorted(set(c for c in cuts if 1 <= c <= total))
        return {"op": "sweep_log", "path": p, "cuts": cuts}

    # ----------------------------------------------------------------- execution ----
    def apply(self, op):
        return getattr(self, "do_" + op["op"])(op)

    def do_append(self, op):
        from PyMatterSim.writer.lammps_writer import write_dump_header
        path = op["path"]
        d = self.dumps.get(path)
        if d is None:
            if op["head"] is None:
                raise Refuse("no such dump yet")
            d = dict(op["head"])
            d["frames"] = []
        elif op["head"] is not None:
            raise Refuse("dump exists")
        if d["const_n"] and d["frames"] and d["frames"][0]["n"] != op["n"]:
            raise Refuse("constant n")
        rng = np.random.default_rng(op["subseed"])
        ndim, n = d["ndim"], op["n"]
        lo = rng.uniform(-20, 20, size=ndim)
        if rng.random() < 0.2:
            lo = np.round(lo)
        if rng.random() < 0.1:
            lo = lo * 10.0 ** rng.integers(2, 6)          # far-away boxes: many digits before the point
        L = rng.uniform(2.0, 30.0, size=ndim)
        if rng.random() < 0.2:
            lo = -L / 2
        bounds = np.column_stack((lo, lo + L))
        types = np.concatenate([np.arange(1, d["K"] + 1), rng.integers(1, d["K"] + 1, size=max(0, n - d["K"]))])[:n]
        types = rng.permutation(types)
        pos = lo + (0.01 + 0.98 * rng.random((n, ndim))) * L
        if d["coord"] == "xu":
            pos = pos + rng.integers(-2, 3, size=(n, ndim)) * L
        extras = rng.normal(0, 5, size=(n, len(d["names"])))
        order = rng.permutation(n)
        coordnames = ["x", "y", "z"][:ndim] if d["coord"] == "x" else ["xu", "yu", "zu"][:ndim]
        addson = " ".join(d["names"])
        ity = {"int": int, "np.int64": np.int64, "np.uint64": np.uint64}[op.get("ints", "int")]
        ts_arg, n_arg = ity(op["timestep"]), (ity(n) if ity is not np.uint64 else np.int32(n))
        b_arg = {"ndarray": lambda b: b, "list": lambda b: b.tolist(), "tuple": lambda b: tuple(tuple(r) for r in b.tolist())}[op.get("bounds_as", "ndarray")](bounds)
        if d["names"]:
            call = lambda: write_dump_header(ts_arg, n_arg, b_arg, addson)   # noqa: E731
        elif d["addson_none"]:
            call = lambda: write_dump_header(ts_arg, n_arg, b_arg)           # noqa: E731
        else:
            call = lambda: write_dump_header(ts_arg, n_arg, b_arg, "")       # noqa: E731
        header, exc, _ = self.call(call)
        if exc is not None:
            self.drop_last()
            raise Violation("C19/writer-raised:append", f"{exc}")
        if not isinstance(header, str) or header.count("\n") != 9 or not header.endswith("\n"):
            raise Violation("C19/writer-layout:append", f"header is not nine newline-terminated lines: {header!r}"[:400])
        if d["coord"] == "xu":
            # the writer only knows 'x y z'; an unwrapped dump carries the LAMMPS names
            hl = header.split("\n")
            hl[8] = "ITEM: ATOMS id type " + " ".join(coordnames) + (" " + addson if addson else "")
            header = "\n".join(hl)
        rows = []
        text = header
        for k in order:
            ctoks = [fmt_float(rng, v) for v in pos[k]]
            if d["coord"] == "x":
                # a lossy number format must not move an atom out of the (printed) box: the
                # documented wrap of the readers has to stay a no-op for what is written
                for a_, tk in enumerate(ctoks):
                    if not (float(f"{bounds[a_][0]:.6f}") < float(tk) < float(f"{bounds[a_][1]:.6f}")):
                        ctoks[a_] = repr(float(pos[k][a_]))
            toks = [str(k + 1), str(int(types[k]))] + ctoks + [fmt_float(rng, v) for v in extras[k]]
            rows.append(toks)
            text += " ".join(toks) + "\n"
        # the producer appends a whole frame as one unit: a reader never sees a torn frame
        with simio.real_open(path, "a", encoding="utf-8") as f:
            f.write(text)
        d["frames"].append({"timestep": op["timestep"], "n": n, "bounds": bounds, "rows": rows})
        self.dumps[path] = d
        if len(d["frames"]) > 1:
            self.ctx.probe("append_to_existing_dump")
        return f"{path} t={op['timestep']} n={n} ndim={ndim}"

    def do_data_header(self, op):
        """write_data_header -> stub LAMMPS `read_data`: an independent parse of the data-file
        header grammar (counts, atom types, bounds keyword lines, the Atoms section line)."""
        from PyMatterSim.writer.lammps_writer import write_data_header
        rng = np.random.default_rng(op["subseed"])
        ndim = op["ndim"]
        lo = rng.uniform(-50, 50, size=ndim)
        if rng.random() < 0.2:
            lo = lo * 10.0 ** rng.integers(2, 6)
        L = rng.uniform(0.5, 80.0, size=ndim)
        if rng.random() < 0.2:
            lo = -L / 2
        bounds = np.column_stack((lo, lo + L))
        arg = bounds if rng.random() < 0.7 else bounds.tolist()
        header, exc, _ = self.call(lambda: write_data_header(op["n"], op["K"], arg))
        if exc is not None:
            self.drop_last()
            raise Violation("C19/writer-raised:data_header", f"{exc}")
        if not isinstance(header, str) or not header.endswith("\n"):
            raise Violation("C19/data-header-layout:data_header", f"{header!r}"[:300])
        lines = header.split("\n")
        body = [ln.split("#")[0].split() for ln in lines[1:]]          # first line is a title; '#' starts a comment
        got = {}
        section = None
        for toks in body:
            if not toks:
                continue
            if len(toks) == 2 and toks[1] == "atoms":
                got["atoms"] = int(toks[0])
            elif len(toks) == 3 and toks[1:] == ["atom", "types"]:
                got["types"] = int(toks[0])
            elif len(toks) == 4 and toks[2:] in (["xlo", "xhi"], ["ylo", "yhi"], ["zlo", "zhi"]):
                if section is not None:
                    raise Violation("C19/data-header-layout:data_header", "box bounds after the Atoms section line")
                got[toks[2][0]] = (float(toks[0]), float(toks[1]))
            elif toks[0] == "Atoms":
                section = toks
            else:
                raise Violation("C19/data-header-layout:data_header", f"line {toks} is not part of the data-file header grammar")
        if section is None or lines[-2] != "" or lines[-1] != "":
            raise Violation("C19/data-header-layout:data_header", "no 'Atoms' section line followed by a blank line at the end")
        if got.get("atoms") != op["n"] or got.get("types") != op["K"]:
            raise Violation("C19/data-header-counts:data_header", f"{got.get('atoms')} atoms / {got.get('types')} types, given {op['n']} / {op['K']}")
        for a, ax in enumerate("xyz"[:ndim]):
            if ax not in got or max(abs(got[ax][0] - bounds[a][0]), abs(got[ax][1] - bounds[a][1])) > 5.0e-7 + 8 * np.spacing(np.abs(bounds[a]).max()):
                raise Violation("C19/data-header-bounds:data_header", f"{ax}: {got.get(ax)} given {bounds[a].tolist()}")
        if "z" not in got or not (got["z"][0] < 0.0 < got["z"][1] if ndim == 2 else True):
            raise Violation("C19/data-header-bounds:data_header", f"z bounds {got.get('z')} (a 2D data file needs z bounds that straddle zero)")
        return f"data header n={op['n']} K={op['K']} ndim={ndim}"

    # -- helpers for reads ------------------------------------------------------------
    def _read(self, op, fn, tag):
        clock = None
        if op.get("clock"):
            import PyMatterSim.reader.dump_reader as dr
            clock = VirtualClock(op["clock"])
            saved = dr.time
            dr.time = clock
        plan = op.get("fault")
        if plan is None and op.get("nest"):
            plan = self.nest_plan(op["nest"])
        try:
            res, exc, (nev, dig, fired) = self.call(fn, plan)
        finally:
            if clock is not None:
                dr.time = saved
                self.ctx.faults_fired["clock_jump"] = self.ctx.faults_fired.get("clock_jump", 0) + 1
        self.raise_nested()
        if exc is not None:
            self.drop_last()
            if fired and fired[0] in ("oserror_read", "interrupt") + LINE_FAULTS:
                self.ctx.probe("reader_failed_by_fault")
                return None, True
            raise Violation(f"C19/reader-raised:{tag}", f"{exc[0]}: {exc[1]} for {self._brief(op)}")
        if fired:
            self.ctx.probe("read_correct_under_" + fired[0])
        return res, False

    def _brief(self, op):
        return {k: v for k, v in op.items() if k not in ("recipe",)}

    def _frames(self, path):
        if path not in self.dumps:
            raise Refuse("no dump")
        return self.dumps[path]

    def _check_loop(self, snaps, d, tag, positions=True):
        if snaps is None or not hasattr(snaps, "snapshots"):
            raise Violation(f"C19/loop-frames:{tag}", f"reader returned {type(snaps).__name__}")
        fr = d["frames"]
        if snaps.nsnapshots != len(fr) or len(snaps.snapshots) != len(fr):
            raise Violation(f"C19/loop-frames:{tag}", f"{snaps.nsnapshots} snapshots read, {len(fr)} frames written")
        for t, (s, w) in enumerate(zip(snaps.snapshots, fr)):
            if s.timestep != w["timestep"]:
                raise Violation(f"C19/loop-timestep:{tag}", f"frame {t}: read {s.timestep}, written {w['timestep']}")
            yield t, s, w

    def _check_box(self, s, w, t, tag, ndim):
        if s.boxbounds.shape != (ndim, 2):
            raise Violation(f"C19/loop-bounds:{tag}", f"frame {t}: boxbounds shape {s.boxbounds.shape}")
        # half a unit of the header's sixth decimal, plus what a float64 of that size cannot
        # resolve (a box a million away from the origin has neighbours 1e-10 apart: a written
        # ...6126165 is a tie only on paper)
        slack = 1e-12 + 4 * float(np.spacing(np.max(np.abs(w["bounds"])) + 1.0))
        if np.max(np.abs(s.boxbounds - w["bounds"])) > 5.0e-7 + slack:
            raise Violation(f"C19/loop-bounds:{tag}", f"frame {t}: read {s.boxbounds.tolist()}, written {w['bounds'].tolist()}")
        if np.max(np.abs(s.boxlength - (w["bounds"][:, 1] - w["bounds"][:, 0]))) > 1.0e-6 + 2 * slack:
            raise Violation(f"C19/loop-boxlength:{tag}", f"frame {t}: boxlength {s.boxlength.tolist()}")

    def do_read_dump(self, op):
        from PyMatterSim.reader.dump_reader import DumpReader
        from PyMatterSim.reader.lammps_reader_helper import read_lammps_wrapper
        d = self._frames(op["path"])
        ndim = d["ndim"]
        tag = "read_dump"
        if op["via"] == "wrapper":
            snaps, failed = self._read(op, lambda: read_lammps_wrapper(op["path"], ndim), tag)
        else:
            rd = DumpReader(op["path"], ndim=ndim)
            _, failed = self._read(op, rd.read_onefile, tag)
            snaps = rd.snapshots
            if op["via"] == "keep" and not failed:
                name = f"r{self.next_r}"
                self.next_r += 1
                self.readers[name] = (rd, op["path"], "dump", None)
        if failed:
            return "failed by fault"
        self._judge_dump(snaps, d, tag)
        return f"{op['path']} {len(d['frames'])} frames via {op['via']}"

    def _judge_dump(self, snaps, d, tag):
        ndim = d["ndim"]
        for t, s, w in self._check_loop(snaps, d, tag):
            if s.nparticle != w["n"]:
                raise Violation(f"C19/loop-nparticle:{tag}", f"frame {t}: read {s.nparticle}, written {w['n']}")
            self._check_box(s, w, t, tag, ndim)

    def do_reread(self, op):
        if op["reader"] not in self.readers:
            raise Refuse("no reader")
        rd, path, kind, opts = self.readers[op["reader"]]
        if path in self.hoomd or path.endswith(".gsd"):
            h = self.hoomd.get(path)
            dcd = rd.filetype.name == "GSD_DCD"
            if h is None or (dcd and not h["dcd"]) or h["recipe"]["ndim"] != rd.ndim:
                raise Refuse("hoomd file gone, or rewritten in another dimension than the reader was built for")
            _, failed = self._read(op, rd.read_onefile, "reread")
            if failed:
                return "failed by fault"
            pristine, xyz0, _l = make_hoomd(h["recipe"])
            self._judge_hoomd(rd.snapshots, pristine, xyz0, h["recipe"]["ndim"], dcd, ("gsd-dcd" if dcd else "gsd") + "-file")
            return f"{path} re-read through {op['reader']}"
        if op.get("refile"):
            if op["refile"] not in self.dumps or self.dumps[op["refile"]]["ndim"] != rd.ndim:
                raise Refuse("no such dump of the reader's dimension")
            path = op["refile"]
            rd.filename = path
            self.readers[op["reader"]] = (rd, path, kind, opts)
            self.ctx.probe("reader_pointed_at_another_file")
        d = self._frames(path)
        if d["ndim"] != rd.ndim:
            raise Refuse("dump rewritten in another dimension than the reader was built for")
        ed = op.get("edit")
        if ed and kind in ("center", "vector"):
            if kind == "center":
                new = {int(k): int(v) for k, v in ed["moltypes"].items()}
                if ed["how"] == "inplace":
                    if sorted(new) == sorted(opts):
                        for k in opts:
                            opts[k] = new[k]             # values only: the dict keeps its keys and their order
                    else:
                        opts.clear()
                        opts.update(new)
                else:
                    opts = new
                    object.__setattr__(rd, "moltypes", opts)
            else:
                new = [int(c) for c in ed["cols"]]
                if ed["how"] == "inplace":
                    opts[:] = new
                else:
                    opts = new
                    object.__setattr__(rd, "columnsids", opts)
            self.readers[op["reader"]] = (rd, path, kind, opts)
            self.ctx.probe(f"reader_options_edited_{ed['how']}")
        if kind == "vector" and max(opts) > 2 + d["ndim"] + len(d["names"]):
            raise Refuse("column out of range for the file as it is now")
        sw = op.get("sweep")
        if sw and len(d["frames"]) * max(w["n"] for w in d["frames"]) <= 400:
            import random
            import sys
            from simkit.worldbase import line_tracer
            tr, st = line_tracer(0)
            sys.settrace(tr)
            try:
                rd.read_onefile()
            except BaseException as e:  # noqa: BLE001
                raise Violation("C19/reader-raised:reread", f"{type(e).__name__}: {e} for {self._brief(op)}")
            finally:
                sys.settrace(None)
            nln = st["n"]
            r2 = random.Random(sw["seed"])
            every = os.environ.get("VERIF_TIER", "quick") != "quick" and nln <= 600
            m = nln if every else min(nln, sw["m"])
            ats = sorted({min(nln, 1 + (k * nln) // m + r2.randrange(max(1, nln // m))) for k in range(m)}) if m else []
            n_f = 0
            for at in ats:
                _r, exc, (_nev, _dig, fired) = self.call(rd.read_onefile, {"kind": sw["exc"], "at": at})
                self.drop_last()
                if exc is not None and not (fired and fired[0] in LINE_FAULTS):
                    raise Violation("C19/reader-raised:reread", f"{exc[0]}: {exc[1]} for {self._brief(op)}")
                n_f += 1 if fired else 0
            self.ctx.probe("reader_sweep_points", n_f)
        _, failed = self._read(op, rd.read_onefile, "reread")
        if failed:
            return "failed by fault"
        if kind == "center":
            self._judge_center(rd.snapshots, d, dict(opts), "reread")
        elif kind == "vector":
            self._judge_vector(rd.snapshots, d, list(opts), "reread")
        else:
            self._judge_dump(rd.snapshots, d, "reread")
        self.ctx.probe("long_lived_reader_reread" + ("" if kind == "dump" else "_" + kind))
        return f"{op['reader']} {path} {len(d['frames'])} frames"

    def do_read_vector(self, op):
        from PyMatterSim.reader.dump_reader import DumpReader
        from PyMatterSim.reader.lammps_reader_helper import read_lammps_vector_wrapper
        from PyMatterSim.reader.reader_utils import DumpFileType
        d = self._frames(op["path"])
        ndim, cols = d["ndim"], list(op["cols"])
        if max(cols) > 2 + ndim + len(d["names"]):
            raise Refuse("column out of range")
        tag = "read_vector"
        if op["via"] == "wrapper":
            snaps, failed = self._read(op, lambda: read_lammps_vector_wrapper(op["path"], ndim, cols), tag)
        else:
            rd = DumpReader(op["path"], ndim=ndim, filetype=DumpFileType.LAMMPSVECTOR, columnsids=cols)
            _, failed = self._read(op, rd.read_onefile, tag)
            snaps = rd.snapshots
            if op["via"] == "keep" and not failed:
                name = f"r{self.next_r}"
                self.next_r += 1
                self.readers[name] = (rd, op["path"], "vector", cols)      # cols: the client's own list, held by the reader
        if failed:
            return "failed by fault"
        self._judge_vector(snaps, d, cols, tag)
        return f"{op['path']} cols={cols}"

    def _judge_vector(self, snaps, d, cols, tag):
        ndim = d["ndim"]
        for t, s, w in self._check_loop(snaps, d, tag):
            want = np.zeros((w["n"], len(cols)))
            for toks in w["rows"]:
                want[int(toks[0]) - 1] = [float(toks[c - 1]) for c in cols]
            got = np.asarray(s.positions)
            if got.shape != want.shape or not np.array_equal(got, want):
                raise Violation(f"C19/vector-columns:{tag}",
                                f"frame {t} columns {cols}: got {got.tolist()[:4]} expected {want.tolist()[:4]}")
            if s.nparticle != w["n"]:
                raise Violation(f"C19/loop-nparticle:{tag}", f"frame {t}: {s.nparticle} vs {w['n']}")
            self._check_box(s, w, t, tag, ndim)

    def do_read_additions(self, op):
        from PyMatterSim.reader.lammps_reader_helper import read_additions
        d = self._frames(op["path"])
        if not d["const_n"] or op["ncol"] >= 2 + d["ndim"] + len(d["names"]):
            raise Refuse("not applicable")
        res, failed = self._read(op, lambda: read_additions(op["path"], op["ncol"]), "read_additions")
        if failed:
            return "failed by fault"
        fr = d["frames"]
        want = np.zeros((len(fr), fr[0]["n"]))
        for t, w in enumerate(fr):
            for toks in w["rows"]:
                want[t, int(toks[0]) - 1] = float(toks[op["ncol"]])
        if not isinstance(res, np.ndarray) or res.shape != want.shape or not np.array_equal(res, want):
            raise Violation("C19/additions:read_additions",
                            f"ncol={op['ncol']}: got {np.asarray(res).tolist()[:2]} expected {want.tolist()[:2]}")
        return f"{op['path']} ncol={op['ncol']}"

    def do_read_center(self, op):
        from PyMatterSim.reader.dump_reader import DumpReader
        from PyMatterSim.reader.lammps_reader_helper import read_lammps_centertype_wrapper
        from PyMatterSim.reader.reader_utils import DumpFileType
        d = self._frames(op["path"])
        ndim = d["ndim"]
        mol = {int(k): int(v) for k, v in op["moltypes"].items()}
        tag = "read_center"
        mk = op.get("mapkind", "dict")

        def as_given(m):
            # "all type maps": the same mapping held in one of the dict types people fill in loops
            import collections
            if mk == "defaultdict":
                d = collections.defaultdict(int)
                d.update(m)
                return d
            if mk == "Counter":
                return collections.Counter(m)
            if mk == "OrderedDict":
                return collections.OrderedDict(m)
            return dict(m)
        if op["via"] == "wrapper":
            snaps, failed = self._read(op, lambda: read_lammps_centertype_wrapper(op["path"], ndim, as_given(mol)), tag)
        else:
            mine = as_given(mol)                              # the client's own dict, held by the reader
            rd = DumpReader(op["path"], ndim=ndim, filetype=DumpFileType.LAMMPSCENTER, moltypes=mine)
            _, failed = self._read(op, rd.read_onefile, tag)
            snaps = rd.snapshots
            if op["via"] == "keep" and not failed:
                name = f"r{self.next_r}"
                self.next_r += 1
                self.readers[name] = (rd, op["path"], "center", mine)
        if failed:
            return "failed by fault"
        self._judge_center(snaps, d, mol, tag)
        return f"{op['path']} map={mol}"

    def _judge_center(self, snaps, d, mol, tag):
        ndim = d["ndim"]
        for t, s, w in self._check_loop(snaps, d, tag):
            sel = sorted((int(toks[0]), toks) for toks in w["rows"] if int(toks[1]) in mol)
            want_types = [mol[int(toks[1])] for _, toks in sel]
            want_pos = np.array([[float(x) for x in toks[2:2 + ndim]] for _, toks in sel]).reshape(len(sel), ndim)
            if s.nparticle != len(sel):
                raise Violation(f"C19/center-count:{tag}", f"frame {t}: {s.nparticle} centres, expected {len(sel)} (map {mol})")
            got_t = np.asarray(s.particle_type)
            if got_t.shape != (len(sel),) or [float(x) for x in got_t] != [float(x) for x in want_types]:
                raise Violation(f"C19/center-types:{tag}", f"frame {t}: {got_t.tolist()} expected {want_types} (map {mol})")
            got_p = np.asarray(s.positions)
            # the reader's documented wrap into the box is a mathematical no-op here (atoms are
            # written strictly inside) but not a bit-exact one for boxes far from the origin:
            # a few units in the last place of the box coordinates are not a disagreement
            slack = 8 * float(np.spacing(np.max(np.abs(w["bounds"])) + 1.0))
            if got_p.shape != want_pos.shape or (got_p.size and float(np.max(np.abs(got_p - want_pos))) > slack):
                raise Violation(f"C19/center-positions:{tag}", f"frame {t}: {got_p.tolist()[:3]} expected {want_pos.tolist()[:3]}")
            self._check_box(s, w, t, tag, ndim)
            if len(sel) == 0:
                self.ctx.probe("center_frame_without_match")

    def _judge_hoomd(self, res, pristine, xyz, ndim, dcd, tag):
        if res is None or res.nsnapshots != len(pristine) or len(res.snapshots) != len(pristine):
            raise Violation(f"C19/{tag}-frames:hoomd", f"{getattr(res, 'nsnapshots', None)} vs {len(pristine)}")
        for t, (s, fr) in enumerate(zip(res.snapshots, pristine)):
            if s.timestep != fr.configuration.step or s.nparticle != fr.particles.N:
                raise Violation(f"C19/{tag}-frame-meta:hoomd", f"frame {t}: step {s.timestep}/{fr.configuration.step} n {s.nparticle}")
            if not np.array_equal(np.asarray(s.particle_type, dtype=float), fr.particles.typeid.astype(float) + 1):
                raise Violation(f"C19/{tag}-types:hoomd", f"frame {t}: {np.asarray(s.particle_type).tolist()}")
            want = xyz[t][:, :ndim] if dcd else fr.particles.position[:, :ndim]
            got = np.asarray(s.positions)
            if got.shape != want.shape or not np.array_equal(got, want):
                raise Violation(f"C19/{tag}-positions:hoomd", f"frame {t}: shape {got.shape} expected {want.shape}")
            if not np.array_equal(np.asarray(s.boxlength), fr.configuration.box[:ndim]):
                raise Violation(f"C19/{tag}-box:hoomd", f"frame {t}: {np.asarray(s.boxlength).tolist()}")

    def do_hoomd(self, op):
        from PyMatterSim.reader.gsd_reader_helper import read_gsd, read_gsd_dcd
        r = op["recipe"]
        frames, xyz, lengths = make_hoomd(r)
        pristine, xyz0, _l = make_hoomd(r)        # what the peer holds, untouched by the converters
        ndim = r["ndim"]
        pf = op.get("peer_fault")
        traj = FakeTrajectory(frames, (pf["fetch"], pf["exc"]) if pf else None)
        tag = "gsd-dcd" if op["dcd"] else "gsd"
        dcd = None
        failed_before = False
        for k in range(op.get("times", 1) + (1 if pf else 0)):
            # the client converts the same open trajectory again (k > 0): same answer expected
            if op["dcd"]:
                if dcd is None or not failed_before:
                    dcd = FakeDCD(xyz, lengths)       # after a completed conversion the DCD is reopened
                else:
                    # after a conversion that failed while fetching GSD frames the client simply
                    # tries again with the objects it has
                    self.ctx.probe("dcd_peer_object_reused_after_failed_conversion")
                res, exc, _ = self.call(lambda: read_gsd_dcd(traj, dcd, ndim))
            else:
                res, exc, _ = self.call(lambda: read_gsd(traj, ndim))
            if exc is not None:
                self.drop_last()
                if pf and traj.fired and k == 0 and exc[0] in ("OSError", "SimInterrupt"):
                    # the peer failed while a frame was fetched: this conversion may fail (it must
                    # not return something else than the whole trajectory); the next one is judged
                    self.ctx.faults_fired["peer_fetch_" + pf["exc"]] = self.ctx.faults_fired.get("peer_fetch_" + pf["exc"], 0) + 1
                    self.ctx.probe("conversion_failed_by_peer_fault")
                    failed_before = True
                    continue
                raise Violation(f"C19/{tag}-raised:hoomd", f"{exc[0]}: {exc[1]}")
            failed_before = False
            self._judge_hoomd(res, pristine, xyz0, ndim, op["dcd"], tag)
            if k:
                self.ctx.probe("hoomd_trajectory_converted_again")
        return f"{tag} T={len(frames)} N={r['N']} ndim={ndim} x{op.get('times', 1)}"

    def do_hoomd_write(self, op):
        from simkit import peers
        frames, xyz, lengths = make_hoomd(op["recipe"])
        os.makedirs(os.path.dirname(op["path"]), exist_ok=True)
        if op["path"] in self.hoomd:
            self.ctx.probe("hoomd_file_rewritten")
        peers.write_gsd(op["path"], frames)
        dcdpath = op["path"][:-3] + "dcd"
        if op["dcd"]:
            peers.write_dcd(dcdpath, xyz, lengths)
        elif os.path.exists(dcdpath):
            os.remove(dcdpath)
        self.hoomd[op["path"]] = {"recipe": op["recipe"], "dcd": op["dcd"]}
        return f"{op['path']} dcd={op['dcd']} T={op['recipe']['T']}"

    def do_hoomd_read(self, op):
        """The stub HOOMD process' files through the library's own wrappers (gsd / mdtraj are
        stub modules reading through the simulated disk)."""
        from PyMatterSim.reader.dump_reader import DumpReader
        from PyMatterSim.reader.gsd_reader_helper import read_gsd_dcd_wrapper, read_gsd_wrapper
        from PyMatterSim.reader.reader_utils import DumpFileType
        h = self.hoomd.get(op["path"])
        if h is None or (op["dcd"] and not h["dcd"]):
            raise Refuse("no such hoomd file")
        r = h["recipe"]
        ndim = r["ndim"]
        pristine, xyz0, _l = make_hoomd(r)
        tag = "gsd-dcd" if op["dcd"] else "gsd"
        if op["via"] == "wrapper":
            fn = read_gsd_dcd_wrapper if op["dcd"] else read_gsd_wrapper
            snaps, failed = self._read(op, lambda: fn(op["path"], ndim), "hoomd_read")
        else:
            rd = DumpReader(op["path"], ndim=ndim, filetype=DumpFileType.GSD_DCD if op["dcd"] else DumpFileType.GSD)
            _, failed = self._read(op, rd.read_onefile, "hoomd_read")
            snaps = rd.snapshots
            if op["via"] == "keep" and not failed:
                name = f"r{self.next_r}"
                self.next_r += 1
                self.readers[name] = (rd, op["path"], "hoomd", None)
        if failed:
            return "failed by fault"
        self._judge_hoomd(snaps, pristine, xyz0, ndim, op["dcd"], tag + "-file")
        return f"{op['path']} via {op['via']} dcd={op['dcd']}"

    def do_write_log(self, op):
        text, sections = make_log(op["recipe"])
        with simio.real_open(op["path"], "w", encoding="utf-8", newline="") as f:
            f.write(text)
        self.logs[op["path"]] = {"text": text, "sections": sections}
        return f"{op['path']} sections={len(sections)} bytes={len(text)}"

    def _judge_log(self, res, required, tag, what, gaps=False):
        if not isinstance(res, list) or len(res) < len(required):
            n = len(res) if isinstance(res, list) else type(res).__name__
            raise Violation(f"C19/log-section-count:{tag}", f"{n} sections returned, {len(required)} complete sections in {what}")
        if gaps:
            # the log holds runs that died in the middle of the file: whatever is returned for
            # those is unconstrained, so the complete sections are looked for in order among
            # the returned tables (a subsequence), each compared exactly
            j = 0
            for i, sec in enumerate(required):
                while True:
                    if j >= len(res):
                        raise Violation(f"C19/log-section-missing:{tag}",
                                        f"complete section {i} (columns {sec['cols']}, {len(sec['rows'])} rows) is not among the "
                                        f"{len(res)} returned tables in order; {what}")
                    try:
                        self._judge_log([res[j]], [sec], tag, what)
                        j += 1
                        break
                    except Violation:
                        j += 1
            self.ctx.probe("log_with_crashed_run_in_the_middle")
            return
        for i, sec in enumerate(required):
            df = res[i]
            cols = [str(c) for c in df.columns]
            if cols != sec["cols"]:
                raise Violation(f"C19/log-section-columns:{tag}", f"section {i}: {cols} expected {sec['cols']} in {what}")
            want = np.array([[float(x) for x in row] for row in sec["rows"]]).reshape(len(sec["rows"]), len(sec["cols"]))
            if len(df) and any(df[c].dtype.kind not in "fiu" for c in df.columns):
                bad = [f"{c}:{df[c].dtype}" for c in df.columns if df[c].dtype.kind not in "fiu"]
                raise Violation(f"C19/log-section-dtype:{tag}", f"section {i}: thermodynamic columns returned as non-numbers {bad} in {what}")
            got = df.to_numpy(dtype=float) if len(df) else np.zeros((0, len(cols)))
            if got.shape != want.shape or not np.array_equal(got, want, equal_nan=True):
                raise Violation(f"C19/log-section-rows:{tag}", f"section {i}: {got.shape[0]} rows {got.tolist()[:2]} expected {want.shape[0]} rows {want.tolist()[:2]} in {what}")

    def do_read_log(self, op):
        from PyMatterSim.reader.simulation_log import read_lammpslog
        if op["path"] not in self.logs:
            raise Refuse("no log")
        lg = self.logs[op["path"]]
        required = [s for s in lg["sections"] if s["loop_line"] is not None]
        if not required:
            # nothing is promised for a log without a complete section
            res, exc, _ = self.call(lambda: read_lammpslog(op["path"]), op.get("fault"))
            self.drop_last()
            self.ctx.probe("log_without_complete_section")
            return f"{op['path']} no complete section ({'raised' if exc else 'ok'})"
        res, failed = self._read(op, lambda: read_lammpslog(op["path"]), "read_log")
        if failed:
            return "failed by fault"
        self._judge_log(res, required, "read_log", f"{op['path']} ({len(lg['sections'])} sections incl. unfinished)",
                        gaps=any(x.get("killed") for x in lg["sections"]))
        if any(s["loop_line"] is None for s in lg["sections"]):
            self.ctx.probe("log_with_unfinished_tail")
        return f"{op['path']} {len(required)} complete sections"

    def do_sweep_log(self, op):
        """Crash points of the log producer: the reader runs on every requested prefix."""
        from PyMatterSim.reader.simulation_log import read_lammpslog
        if op["path"] not in self.logs:
            raise Refuse("no log")
        lg = self.logs[op["path"]]
        text, secs = lg["text"], lg["sections"]
        total = len(text)
        cuts = range(1, total + 1) if op["cuts"] == "all" else [c for c in op["cuts"] if 1 <= c <= total]
        if op["cuts"] == "all" and total > 3000:
            # a long log (sections of up to 40 rows): every byte of the first and the last 1000, every
            # third byte in between - the whole sweep stays within a few seconds
            cuts = sorted(set(range(1, 1001)) | set(range(1001, total - 1000, 3)) | set(range(total - 1000, total + 1)))
        cutpath = "cut_" + op["path"]
        nreq = 0
        for c in cuts:
            with simio.real_open(cutpath, "w", encoding="utf-8", newline="") as f:
                f.write(text[:c])
            required = [s for s in secs if s["loop_line"] is not None and s["loop_off"][1] <= c]
            cls = cut_class(secs, c, total)
            self.ctx.faults_fired["torn_tail"] = self.ctx.faults_fired.get("torn_tail", 0) + 1
            res, exc, _ = self.call(lambda: read_lammpslog(cutpath))
            if exc is not None:
                self.drop_last()
                if required:
                    raise Violation(f"C19/log-torn-raised:{cls}",
                                    f"{exc[0]}: {exc[1]} on the first {c} of {total} bytes of {op['path']} "
                                    f"({len(required)} complete sections precede the cut; tail {text[max(0, c - 30):c]!r})")
                continue
            if required:
                nreq += 1
                self._judge_log(res, required, f"torn:{cls}", f"first {c} of {total} bytes of {op['path']}",
                                gaps=any(x.get("killed") and x["hdr_off"][0] < c for x in secs))
            self.ctx.probe("cut_" + cls)
        try:
            os.unlink(cutpath)
        except OSError:
            pass
        return f"{op['path']} cuts={len(cuts)} judged={nreq}"

    # ------------------------------------------------------------------ bookkeeping ----
    def invariants(self):
        pass

    def finish(self):
        pass

    def state_sig(self):
        return (tuple(sorted((p, len(d["frames"]), d["ndim"], d["const_n"]) for p, d in self.dumps.items())),
                tuple(sorted((p, len(l["sections"])) for p, l in self.logs.items())), len(self.readers))

    def interleaving_sig(self, ops):
        out = []
        for o in ops:
            f = o.get("fault")
            out.append((o["op"], o.get("path"), o.get("via"), o.get("reader"), bool(o.get("clock")),
                        tuple(o.get("cols", ())), o.get("ncol"), (f["kind"], min(f["at"], 30)) if f else None,
                        o.get("dcd"), o.get("n")))
        return tuple(out)

    def nontrivial(self, ops):
        return sum(1 for o in ops if o["op"] != "hoomd") >= 3

    @staticmethod
    def simplify(op):
        if op["op"] == "sweep_log" and op["cuts"] != "all" and len(op["cuts"]) > 1:
            for c in op["cuts"]:
                yield dict(op, cuts=[c])
        if op["op"] == "sweep_log" and op["cuts"] == "all":
            return
        if "fault" in op:
            o = dict(op)
            del o["fault"]
            yield o
