"""Configuration generator and the independent minimum-image / neighbour model shared by
the worlds.  Nothing here calls into the repository's numerical code."""
import numpy as np


def min_image(R, h, ppp):
    """Minimum-image representative per the documented contract: fractional coordinates
    (R = s.h, rows of h are the cell vectors) rounded to the nearest integer on periodic
    axes only."""
    s = np.linalg.solve(h.T, R.T).T
    s = s - np.round(s) * np.asarray(ppp, dtype=float)[None, :]
    return s @ h, s


def make_cell(rng, ndim, cell):
    L = rng.uniform(4.0, 9.0, size=ndim)
    h = np.diag(L)
    if cell == "tri":
        # LAMMPS-style lower-triangular h-matrix, tilts of either sign, |tilt| <= L/2
        h[1, 0] = rng.uniform(-0.5, 0.5) * L[0]
        if ndim == 3:
            h[2, 0] = rng.uniform(-0.5, 0.5) * L[0]
            h[2, 1] = rng.uniform(-0.5, 0.5) * L[1]
    origin = rng.uniform(-5.0, 5.0, size=ndim)
    if rng.random() < 0.25:
        origin = -0.5 * L                     # box centred on the origin
    return h, origin


def make_positions(rng, h, origin, layout, N, ndim, ppp):
    if layout == "random":
        s = rng.random((N, ndim))
    elif layout == "lattice":
        m = int(np.ceil(N ** (1.0 / ndim)))
        grid = np.stack(np.meshgrid(*[np.arange(m)] * ndim, indexing="ij"), -1).reshape(-1, ndim)
        pick = rng.permutation(len(grid))[:N]
        s = (grid[pick] + 0.5) / m + rng.normal(0, 0.04 / m, size=(N, ndim))
    elif layout == "cluster":
        nc = int(rng.integers(1, 4))
        centres = rng.random((nc, ndim))
        s = centres[rng.integers(0, nc, size=N)] + rng.normal(0, 0.08, size=(N, ndim))
    elif layout == "droplet":
        # a dense drop in its dilute vapour: local densities far above and far below the mean
        nd = int(0.87 * N)
        c = rng.random(ndim)
        s = np.vstack((c + rng.normal(0, 0.05, size=(nd, ndim)), rng.random((N - nd, ndim))))
        s = s[rng.permutation(N)]
    else:
        raise ValueError(layout)
    s = s - np.floor(s)
    if layout == "random" and rng.random() < 0.3:
        # some particles recorded in a neighbouring image (unwrapped style) on periodic axes
        far = 4 if rng.random() < 0.3 else 2       # now and then several box lengths away
        shift = rng.integers(1 - far, far, size=(N, ndim)) * (rng.random((N, 1)) < 0.3)
        s = s + shift * np.asarray(ppp)[None, :]
    return s @ h + origin[None, :]


def make_exact(rng, ndim, N):
    """Integer sites in a power-of-two orthogonal box at an integer origin: every
    intermediate of the distance computation is exactly representable."""
    L = rng.choice([8.0, 16.0], size=ndim)
    origin = rng.integers(-8, 8, size=ndim).astype(float)
    sites = np.stack(np.meshgrid(*[np.arange(int(l)) for l in L], indexing="ij"), -1).reshape(-1, ndim)
    # a compact patch so that many pairs sit exactly on small integer distances
    span = 4 if ndim == 3 else 6
    sites = sites[(sites < span).all(axis=1)]
    pick = rng.permutation(len(sites))[:N]
    pos = sites[pick].astype(float)
    pos = (pos + rng.integers(0, 16, size=ndim)[None, :]) % L[None, :] + origin[None, :]
    return np.diag(L), origin, pos


class Config:
    """A trajectory (T frames, N particles) together with its brute-force distance tables."""

    def __init__(self, recipe):
        self.recipe = dict(recipe)
        r = recipe
        rng = np.random.default_rng(r["subseed"])
        ndim, N, T, K = r["ndim"], r["N"], r["T"], r["K"]
        self.ndim, self.N, self.T, self.K = ndim, N, T, K
        self.ppp = np.array(r["ppp"], dtype=int)
        self.exact = bool(r.get("exact"))
        self.symmetric_only = bool(r.get("exact") and r.get("halftilt"))
        self.frames = []
        if self.exact:
            h, origin, _ = make_exact(rng, ndim, N)
            for _t in range(T):
                L = np.diag(h)
                span = 4 if ndim == 3 else 6
                sites = np.stack(np.meshgrid(*[np.arange(span)] * ndim, indexing="ij"), -1).reshape(-1, ndim)
                pick = rng.permutation(len(sites))[:N]
                pos = (sites[pick].astype(float) + rng.integers(0, 16, size=ndim)[None, :]) % L[None, :]
                self.frames.append(pos + origin[None, :])
            if r.get("halftilt"):
                # a tilted cell (edges 8, tilt 2: powers of two) with sites on sixteenths of the
                # cell vectors: pairs sit exactly half a cell vector apart, where the two candidate
                # images are at different distances.  Which of them a convention picks is not
                # decided here (symmetric_only): only that i lists j iff j lists i.
                h = np.diag(np.full(ndim, 8.0))
                h[1, 0] = 2.0
                if ndim == 3:
                    h[2, 1] = 2.0
                self.frames = []
                for _t in range(T):
                    cells = np.stack(np.meshgrid(*[np.arange(16)] * ndim, indexing="ij"), -1).reshape(-1, ndim)
                    pick = rng.permutation(len(cells))[:N]
                    self.frames.append((cells[pick].astype(float) / 16.0) @ h + origin[None, :])
        else:
            h, origin = make_cell(rng, ndim, r["cell"])
            base = make_positions(rng, h, origin, r["layout"], N, ndim, self.ppp)
            self.frames.append(base)
            for _t in range(1, T):
                self.frames.append(self.frames[-1] + rng.normal(0, 0.15, size=(N, ndim)))
        self.h = h
        self.origin = origin
        # per-frame cells: constant, or changing from frame to frame (constant-pressure run,
        # sheared cell); positions follow the cell affinely
        self.hs, self.origins = [h.copy() for _ in range(T)], [np.array(origin, dtype=float) for _ in range(T)]
        mode = r.get("cells", "const")
        if mode in ("vary", "shear", "cycle") and not self.exact:
            for t in range(1, T):
                if mode == "shear":
                    # the cell keeps its edge lengths: only the tilt (triclinic) or the origin moves
                    ht = h.copy()
                else:
                    ht = h * (1.0 + rng.uniform(-0.1, 0.1, size=ndim))[None, :]
                if r["cell"] == "tri":
                    ht[1, 0] += rng.uniform(-0.15, 0.15) * h[0, 0]
                    if ndim == 3:
                        ht[2, 0] += rng.uniform(-0.15, 0.15) * h[0, 0]
                        ht[2, 1] += rng.uniform(-0.15, 0.15) * h[1, 1]
                ot = origin + rng.uniform(-0.3, 0.3, size=ndim)
                if mode == "cycle" and t == T - 1:
                    # compress / release, oscillatory strain: the last frame is back in the first cell
                    ht, ot = h.copy(), np.array(origin, dtype=float)
                s = np.linalg.solve(h.T, (self.frames[t] - origin).T).T
                self.frames[t] = s @ ht + ot
                self.hs[t], self.origins[t] = ht, ot
        # per-frame particle numbers: constant, or shrinking / growing from frame to frame
        # (frame t keeps the first Ns[t] particles; ids and types are those of the prefix)
        self.Ns = [N] * T
        if r.get("nvary") and not self.exact and N >= 5:
            for t in range(1, T):
                self.Ns[t] = int(rng.integers(max(3, min(N, 4)), N + 1))
                self.frames[t] = self.frames[t][: self.Ns[t]]
        if r.get("grow") and not self.exact and T > 1 and N >= 5:
            # the first frame is the small one: later frames hold particles frame 0 never had
            n0 = max(3, min(N, 4), K, N // 2)
            self.Ns[0] = n0
            self.frames[0] = self.frames[0][:n0]
        self.Nmin = min(self.Ns)
        types = np.concatenate([np.arange(1, K + 1), rng.integers(1, K + 1, size=max(0, N - K))])[:N]
        self.types = rng.permutation(types).astype(int)
        if r.get("grow") and not self.exact and T > 1 and N >= 5:
            self.types[:K] = np.arange(1, K + 1)      # the small first frame still holds every species
        # per-frame species: the same for every frame, or reassigned from frame to frame
        # (reactive / semi-grand-canonical runs); every species keeps at least one particle
        # among the particles every frame has
        self.types_f = [self.types] * T
        if r.get("tvary") and not self.exact and self.Nmin >= K:
            for t in range(1, T):
                head = rng.permutation(np.arange(1, K + 1))
                tail = rng.integers(1, K + 1, size=N - K)
                self.types_f[t] = np.concatenate([head, tail]).astype(int)
                if r.get("vanish") and K > 1:
                    # one species is absent from this later frame (it is there in frame 0)
                    gone = int(rng.integers(1, K + 1))
                    keep = 1 + (gone % K)
                    self.types_f[t] = np.where(self.types_f[t] == gone, keep, self.types_f[t])
        self.Lmin = float(min(np.min(np.abs(np.diag(x))) for x in self.hs))
        # where the system sits and how it is stored: far from the origin (1e2 ... 1e8 box
        # lengths away) and / or in single precision (what the HOOMD converters hand over)
        far = float(r.get("far", 0.0))
        if far and not self.exact:
            shift = far * np.where(rng.random(ndim) < 0.5, -1.0, 1.0)
            self.frames = [p + shift for p in self.frames]
            self.origins = [o + shift for o in self.origins]
            self.origin = self.origin + shift
        self.dtype = np.float32 if (r.get("f32") and not self.exact) else np.float64
        if self.dtype is np.float32:
            self.frames = [p.astype(np.float32) for p in self.frames]
        maxabs = max(float(np.max(np.abs(p))) for p in self.frames)
        # ordering / membership are only decidable beyond the rounding of the stored coordinates
        self.tol = max(1e-7 * self.Lmin, 64.0 * float(np.finfo(self.dtype).eps) * maxabs)
        self.huge = bool(r.get("huge"))
        if self.huge:
            # thousands of distances per particle are never 1e-7 apart everywhere: only the
            # nearest two dozen are judged (N-nearest lists with N <= 16), and they need to be
            # separated by no more than the rounding of the computation itself
            self.tol = 1e-12 * max(self.Lmin, maxabs)
        self.tables = [self._table(np.asarray(p, dtype=np.float64), self.hs[t]) for t, p in enumerate(self.frames)]

    def _table(self, pos, h):
        N = len(pos)
        D = np.zeros((N, N))
        smax = 0.0
        for i in range(N):
            R, s = min_image(pos - pos[i], h, self.ppp)
            D[i] = np.sqrt((R * R).sum(axis=1))
            per = np.abs(s[:, self.ppp == 1])
            if per.size:
                smax = max(smax, float(per.max()))
        return D, smax

    # -- margins that make ordering / membership decidable ------------------------------
    def margins_ok(self):
        """No half-cell ties; per particle all distances pairwise separated."""
        if self.exact:
            return True
        tol = self.tol
        if self.huge:
            for D, _smax in self.tables:
                near = np.sort(np.partition(D, 25, axis=1)[:, :26], axis=1)
                if np.min(np.diff(near, axis=1)) < tol:
                    return False
            return True
        for D, smax in self.tables:
            if smax > 0.5 - max(1e-9, tol / self.Lmin):
                return False
            for i in range(D.shape[0]):
                d = np.sort(np.delete(D[i], i))
                if d.size and d[0] < tol:
                    return False
                if d.size > 1 and np.min(np.diff(d)) < tol:
                    return False
        return True

    def cutoff_ok(self, rc):
        if self.exact:
            return True
        tol = self.tol
        rc = np.atleast_2d(np.asarray(rc, dtype=float))
        for D, _ in self.tables:
            for v in rc.ravel():
                if np.min(np.abs(D - v)) < tol:
                    return False
        return True

    # -- expected neighbour lists -----------------------------------------------------
    def expect_nearest(self, t, n):
        D = self.tables[t][0]
        out = []
        for i in range(D.shape[0]):
            order = [j for j in np.argsort(D[i], kind="stable") if j != i][:n]
            out.append([j + 1 for j in order])
        return out

    def expect_cutoff(self, t, rc):
        D = self.tables[t][0]
        out = []
        for i in range(D.shape[0]):
            js = [j for j in range(D.shape[0]) if j != i and D[i, j] <= rc]
            js.sort(key=lambda j: D[i, j])
            out.append([j + 1 for j in js])
        return out

    def expect_cutoff_types(self, t, M):
        D = self.tables[t][0]
        M = np.asarray(M, dtype=float)
        out = []
        for i in range(D.shape[0]):
            ty = self.types_f[t]
            ti = ty[i] - 1
            js = [j for j in range(D.shape[0]) if j != i and D[i, j] <= M[ti, ty[j] - 1]]
            js.sort(key=lambda j: D[i, j])
            out.append([j + 1 for j in js])
        return out

    # -- the object the library consumes ----------------------------------------------------
    def snapshots(self):
        from PyMatterSim.reader.reader_utils import SingleSnapshot, Snapshots
        snaps = []
        for t, pos in enumerate(self.frames):
            L = np.diag(self.hs[t]).copy()
            bounds = np.column_stack((self.origins[t], self.origins[t] + L))
            snaps.append(SingleSnapshot(
                timestep=1000 * t, nparticle=len(pos), particle_type=self.types_f[t][: len(pos)].copy(),
                positions=pos.copy(), boxlength=L.copy(), boxbounds=bounds,
                realbounds=None, hmatrix=self._cell(t)))
        return Snapshots(nsnapshots=self.T, snapshots=snaps)

    def _cell(self, t):
        """The cell matrix as the caller holds it: float64 as the readers deliver it, or - for a
        hand-made snapshot with integer box lengths, np.diag([8, 4, 16]) - an integer array."""
        h = self.hs[t].copy()
        if self.recipe.get("int_cell") and np.array_equal(h, np.round(h)):
            return h.astype(np.int64)
        return h
