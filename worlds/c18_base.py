"""C18 adapters: shared helpers - bundle builder, adapter classes, file comparison."""
import os
import re

import numpy as np
import pandas as pd

from simkit.engine import Refuse, Violation

REG = {}          # adapter id -> adapter
GROUPS = {}       # group -> [adapter ids]
COVERS = {}       # public callable (module-relative dotted name) -> adapter id


def lib(path):
    """'static.gr.gr' -> the object, imported lazily from the repository under test."""
    import importlib
    parts = path.split(".")
    for k in range(len(parts), 0, -1):
        try:
            mod = importlib.import_module("PyMatterSim." + ".".join(parts[:k]))
        except ModuleNotFoundError:
            continue
        obj = mod
        for p in parts[k:]:
            obj = getattr(obj, p)
        return obj
    raise ImportError(path)


# --------------------------------------------------------------------------- bundles ----

# entry points that may also be given a trajectory of a few hundred particles ("mid": above the
# block / chunk sizes a refactor might introduce, far below the cost of the rare huge system)
MID_EXTRA = {"conditional_gr", "gr.init", "gr.getresults", "gr.unary", "gr.binary", "S2.init", "S2.particle_s2", "S2.spatial_corr",
             "S2.time_corr", "boo_2d.init", "boo_2d.lthorder", "boo_2d.spatial_corr", "boo_2d.time_corr", "boo_2d.time_average",
             "conditional_sq", "sq.init", "sq.getresults", "sq.unary", "sq.binary", "Dynamics.relaxation", "LogDynamics.relaxation",
             "gyration_tensor", "NematicOrder.init", "NematicOrder.tensor", "NematicOrder.spatial_corr", "s2_integral"}

# entry points cheap enough for the rare >= 1000-particle trajectory (size thresholds, large files)
HUGE_OK = {"Nnearests", "cutoffneighbors", "cutoffneighbors_particletype", "read_neighbors", "spatial_average", "cal_neighbors",
           "convert_configuration", "get_input", "Dynamics.init", "LogDynamics.init", "cage_relative", "time_correlation",
           "participation_ratio", "local_vector_alignment", "phase_quotient", "divergence_curl", "q8_tetrahedral", "remove_pbc",
           "stub.mk_dump", "packing_capability_2d", "boo_2d.init", "time_average", "triangle_area", "write_dump_header",
           "write_data_header", "vibrability", "moment_of_inertia"}


def gen_mk_snaps(w, rng):
    sw = w.swarm
    parents = [e for n, e in sorted(w.pool.items()) if e.kind == "snaps" and e.tag.get("base") and not e.tag.get("reader")
               and e.tag["T"] >= 2]
    if parents and rng.random() < (0.7 if sw.get("huge") and any(e.tag.get("huge") for e in parents) else 0.2):
        # a trajectory branched from an existing one: same first frame, same everything else,
        # different continuation (what restarts and parameter scans produce)
        big = [e for e in parents if e.tag.get("huge")]
        rec = dict(rng.choice(big if big and sw.get("huge") else parents).tag["recipe"])
        rec["branch"] = rng.randrange(1 << 30)
        w.ctx.probe("branched_trajectory")
        return {"op": "mk_snaps", "recipe": rec}
    if parents and rng.random() < 0.1:
        # the same system handed over in the other precision (the LAMMPS readers deliver float64,
        # the HOOMD converters float32 - cell included): equal values, another dtype
        small = [e for e in parents if not e.tag.get("huge") and not e.tag.get("mid") and "branch" not in e.tag["recipe"]]
        if small:
            rec = dict(rng.choice(small).tag["recipe"])
            if rec.get("mem") == "f32":
                rec.pop("mem")
            else:
                rec["mem"] = "f32"
            w.ctx.probe("same_system_other_precision")
            return {"op": "mk_snaps", "recipe": rec}
    nmid = sum(1 for e in w.pool.values() if e.kind == "snaps" and e.tag.get("base") and e.tag.get("mid"))
    if sw.get("mid") and nmid < 2:
        ndim = rng.choice([2, 3])
        rec = {"ndim": ndim, "cell": "ortho", "centred": rng.random() < 0.3, "intbounds": False,
               "N": rng.randint(140, 420), "T": 2, "K": rng.randint(1, 2), "steps": "lin",
               "mask": [1] * ndim, "mid": True, "subseed": rng.randrange(1 << 40)}
        if rng.random() < 0.3:
            rec["mem"] = "f32"
        return {"op": "mk_snaps", "recipe": rec}
    if sw.get("huge") and not any(e.tag.get("huge") for e in w.pool.values() if e.kind == "snaps"):
        rec = {"ndim": rng.choice([2, 3]), "cell": "ortho", "centred": rng.random() < 0.3, "intbounds": False,
               "N": rng.randint(1000, 1300), "T": 2, "K": rng.randint(1, 2), "steps": "lin",
               "mask": None, "huge": True, "subseed": rng.randrange(1 << 40)}
        rec["mask"] = [1] * rec["ndim"]
        return {"op": "mk_snaps", "recipe": rec}
    ndim = rng.choice([2, 3])
    K = rng.choice([1, 1, 2, 2, 2, 3, 4, 5])
    N = rng.randint(max(7, K + 2), max(8, sw["maxN"]))
    allper = rng.random() < 0.75
    rec = {
        "ndim": ndim, "cell": rng.choice(["ortho", "ortho", "ortho", "tri"]),
        "centred": rng.random() < sw["p_centred"], "intbounds": rng.random() < 0.25,
        "N": N, "T": rng.randint(1, sw["maxT"]), "K": K,
        "steps": rng.choice(["lin", "lin", "lin", "log"]),
        "mask": [1] * ndim if allper else [rng.choice([0, 1]) for _ in range(ndim)],
        "subseed": rng.randrange(1 << 40),
    }
    if rng.random() < 0.3:
        rec["mem"] = rng.choice(["F", "strided", "f32"])
    return {"op": "mk_snaps", "recipe": rec}


def build_bundle(rec):
    """-> list of (suffix, kind, value, tag) : the Snapshots object and its companions."""
    from PyMatterSim.reader.reader_utils import SingleSnapshot, Snapshots
    rng = np.random.default_rng(rec["subseed"])
    ndim, N, T, K = rec["ndim"], rec["N"], rec["T"], rec["K"]
    L = rng.uniform(4.0, 8.0, size=ndim)
    if rec["intbounds"]:
        L = np.round(L)
    h = np.diag(L)
    tri = rec["cell"] == "tri"
    if tri:
        h[1, 0] = rng.uniform(-0.4, 0.4) * L[0]
        if ndim == 3:
            h[2, 0] = rng.uniform(-0.4, 0.4) * L[0]
            h[2, 1] = rng.uniform(-0.4, 0.4) * L[1]
    if rec["centred"]:
        origin = -0.5 * L
    else:
        origin = rng.uniform(-5.0, 5.0, size=ndim)
        if rec["intbounds"]:
            origin = np.round(origin)
    bounds = np.column_stack((origin, origin + L))
    real = None
    if tri:
        corners = np.array([[a, b, c][:ndim] for a in (0, 1) for b in (0, 1) for c in (0, 1)], dtype=float) @ h + origin
        real = np.column_stack((corners.min(axis=0), corners.max(axis=0)))
    types = np.concatenate([np.arange(1, K + 1), rng.integers(1, K + 1, size=N - K)])
    types = rng.permutation(types).astype(int)
    if rec["steps"] == "lin":
        dstep = int(rng.integers(1, 6)) * 100
        steps = [1000 + k * dstep for k in range(T)]
    else:
        steps = [0] + [int(50 * 2 ** k + k) for k in range(T - 1)]
    s0 = rng.random((N, ndim))
    xu = [s0 @ h + origin]
    rng_steps = np.random.default_rng(rec["branch"]) if "branch" in rec else rng
    for _t in range(1, T):
        xu.append(xu[-1] + rng_steps.normal(0, 0.12, size=(N, ndim)))
    if rec.get("huge") or rec.get("mid"):
        L = L * (N / 12.0) ** (1.0 / ndim)        # keep the density of the small systems
        h = np.diag(L)
        bounds = np.column_stack((origin, origin + L))
        if rec["centred"]:
            origin = -0.5 * L
            bounds = np.column_stack((origin, origin + L))
        xu = [(s0 @ h + origin)] + [(s0 @ h + origin) + rng_steps.normal(0, 0.12, size=(N, ndim)) * (t + 1) ** 0.5 for t in range(T - 1)]

    def wrap(p):
        s = np.linalg.solve(h.T, (p - origin).T).T
        s = s - np.floor(s)
        return s @ h + origin

    mem = rec.get("mem", "C")

    def store(p):
        """How the caller holds the coordinates: row-major float64 (what the LAMMPS readers
        return), column-major, a strided view into a wider table, single precision (what the
        HOOMD converters return) - aliasing through asarray / astype(copy=False) / ravel /
        reshape depends on it."""
        p = np.ascontiguousarray(p)
        if mem == "F":
            return np.asfortranarray(p)
        if mem == "strided":
            wide = np.zeros((p.shape[0], 2 * p.shape[1] + 1))
            wide[:, ::2][:, : p.shape[1]] = p
            return wide[:, ::2][:, : p.shape[1]]
        if mem == "f32":
            return p.astype(np.float32)
        return p

    # a hand-made snapshot with integer box lengths: np.diag([6, 5, 7]) is an integer array
    int_cell = bool(rec["intbounds"] and not tri and not rec.get("huge") and rec["subseed"] % 3 == 0 and rec.get("mem") != "f32")
    # single-precision trajectories come with a single-precision cell (what read_gsd builds from a HOOMD box)
    f32_cell = bool(rec.get("mem") == "f32" and not tri and rec["subseed"] % 2 == 0)

    def mk(frames):
        snaps = []
        for t, p in enumerate(frames):
            snaps.append(SingleSnapshot(
                timestep=steps[t], nparticle=N, particle_type=types.copy() if mem != "f32" else types.astype(np.uint32) + 0, positions=store(p),
                boxlength=L.astype(np.float32) if f32_cell else L.copy(), boxbounds=bounds.astype(np.float32) if f32_cell else bounds.copy(),
                realbounds=None if real is None else real.copy(),
                hmatrix=h.astype(np.float32) if f32_cell else h.astype(np.int64) if int_cell else h.copy()))
        return Snapshots(nsnapshots=T, snapshots=snaps)

    meta = {"ndim": ndim, "N": N, "T": T, "K": K, "cell": rec["cell"], "centred": bool(rec["centred"]),
            "mask": list(rec["mask"]), "lin": rec["steps"] == "lin" or T <= 2, "Lmin": float(L.min()),
            "allper": all(rec["mask"]), "steps": steps, "huge": bool(rec.get("huge")), "mid": bool(rec.get("mid")), "recipe": dict(rec)}
    out = [("", "snaps", mk([wrap(p) for p in xu]), dict(meta, base=True, coord="x")),
           (".xu", "snaps", mk(xu), dict(meta, base=False, coord="xu"))]
    if ndim == 2:
        ang = rng.uniform(0, 2 * np.pi, size=(T, N))
        out.append((".ori", "snaps", mk([np.column_stack((np.cos(a), np.sin(a))) for a in ang]),
                    dict(meta, base=False, coord="ori")))

    def arr(suffix, value, role, shape=None, dtype=None):
        out.append((suffix, "arr", value, {"role": role, "shape": shape, "dtype": dtype}))

    arr(".ppp", np.array(rec["mask"], dtype=int), "ppp")
    arr(".ppp0", np.zeros(ndim, dtype=int), "ppp")

    def sym(lo, hi):
        m = rng.uniform(lo, hi, size=(K, K))
        return (m + m.T) / 2

    arr(".KK", sym(0.9, 1.3) if rng.random() < 0.7 else sym(0.4, 1.6), "sigmas")      # now and then strongly non-additive
    arr(".eps", sym(0.5, 1.5), "epsilons")
    arr(".rcut", sym(0.28, 0.42) * float(L.min()), "rcuts")
    out.append((".diam", "dict", {int(k): float(rng.uniform(0.8, 1.2)) for k in range(1, K + 1)}, {"role": "diameters"}))
    out.append((".masses", "dict", {int(k): float(rng.uniform(1.0, 2.0)) for k in range(1, K + 1)}, {"role": "masses"}))
    out.append((".radii", "dict", {int(k): float(rng.uniform(0.4, 0.6)) for k in range(1, K + 1)}, {"role": "radii"}))
    cb = rng.random((T, N)) < 0.5
    for t in range(T):
        pick = rng.permutation(N)
        cb[t, pick[:2]] = True
        cb[t, pick[2]] = False
    arr(".cb", cb, "condition", "TN", "bool")
    arr(".cf", rng.normal(1.0, 0.5, size=(T, N)), "condition", "TN", "float")
    arr(".cc", rng.normal(0, 1, size=(T, N)) + 1j * rng.normal(0, 1, size=(T, N)), "condition", "TN", "complex")
    arr(".cv", rng.normal(0, 1, size=(T, N, ndim)), "condition", "TNd", "float")
    arr(".ct", rng.normal(0, 1, size=(T, N, ndim, ndim)), "condition", "TNdd", "float")
    q = rng.integers(-2, 3, size=(12, ndim))
    q = q[(q != 0).any(axis=1)][:8].astype(np.int32)
    if len(q) < 3:
        q = np.eye(ndim, dtype=np.int32)
    # the caller's wave-vector table: integers as the library's own tables are, or the same numbers
    # as float64 (what np.loadtxt of a saved table gives) - astype / asarray alias only the latter
    qd = rec["subseed"] % 4
    arr(".qvec", q.astype(np.float64) if qd == 0 else q.astype(np.int64) if qd == 1 else q, "qvector")
    arr(".ngrids", np.full(ndim, int(rng.integers(2, 5)), dtype=int), "ngrids")
    arr(".grp", xu[0][: min(N, 9)].copy(), "group")
    n_ser = int(rng.choice([9, 10, 11]))
    tt = np.arange(n_ser) * 0.01
    arr(".tt", tt, "series_t")
    arr(".C", np.exp(-tt * 30.0) * np.cos(tt * 100.0) + rng.normal(0, 0.01, size=n_ser), "series_C")
    M = int(rng.integers(2, 6))
    arr(".eigf", rng.uniform(0.5, 3.0, size=M), "eigfreq")
    ev = rng.normal(0, 1, size=(N * ndim, M))
    # eigenvector tables as scipy.linalg.eigh / LAPACK deliver them (column-major) or as numpy does
    arr(".eigv", np.asfortranarray(ev) if rec["subseed"] % 3 == 1 else ev, "eigvec")
    gofr = rng.uniform(0.2, 2.0, size=15)
    if rng.random() < 0.6:
        gofr[: int(rng.integers(1, 5))] = 0.0          # the excluded core: exactly empty bins, as a measured g(r) has
    arr(".gofr", gofr, "gr_values")
    arr(".rbins", (np.arange(15) + 0.5) * 0.1, "gr_bins")
    return out


# ----------------------------------------------------------------------- pool queries ----

def bases(w, pred=None):
    cur = getattr(w, "cur_adapter", None)
    big = cur in HUGE_OK
    mid = big or cur in MID_EXTRA
    return sorted(n for n, e in w.pool.items()
                  if e.kind == "snaps" and e.tag.get("base") and (big or not e.tag.get("huge")) and (mid or not e.tag.get("mid"))
                  and (pred is None or pred(e.tag)))


def pick_base(w, rng, pred=None):
    c = bases(w, pred)
    return rng.choice(c) if c else None


def comp(w, sname, suffix):
    """Companion of a snapshots entry (reader-made snapshots borrow their source's)."""
    n = w.pool[sname].tag["bundle"] + suffix
    return n if n in w.pool else None


def conds(w, sname, shapes, dtypes, maxdepth=3):
    b = w.pool[sname].tag["bundle"]
    out = []
    for n, e in w.pool.items():
        if e.kind == "arr" and e.tag.get("role") == "condition" and e.tag.get("shape") in shapes \
                and e.tag.get("dtype") in dtypes and e.depth <= maxdepth \
                and len(e.value) >= 1 and (n.startswith(b + ".") or e.tag.get("snaps") == b):
            out.append(n)
    return sorted(out)


def nlfiles(w, sname, weights=False, kinds=("nn", "cut", "vor"), need_cn=True):
    b = w.pool[sname].tag["bundle"]
    out = []
    for p, f in w.files.items():
        if f["kind"] == ("weights" if weights else "nl") and f["snaps"] == b and (weights or f["nlkind"] in kinds) \
                and (not need_cn or f.get("mincn", 1) >= 1 or f.get("src", 1) % 2 == 0):
            # (lists with isolated particles - coordination number zero - give NaN or an error in
            # most consumers, with and without history; every other such file is offered anyway:
            # the edge case is where in-place "repairs" of a list live)
            out.append(p)
    return sorted(out)


def outpath(w, rng, kind, force=False):
    from worlds.c18 import OUT
    if not force and rng.random() >= w.swarm["p_outfile"]:
        return None
    return rng.choice(OUT[kind])


def maybe_default(w, rng, args, key, ok=True):
    """Omit an argument whose default describes the same value, with the run's probability."""
    if ok and rng.random() < w.swarm["p_default"]:
        args.pop(key, None)
        w.ctx.probe("default_argument_used")
    return args


def ref(name, frame=None):
    r = {"$": name}
    if frame is not None:
        r["frame"] = frame
    return r


def npy_name(path):
    return path if path.endswith(".npy") else path + ".npy"


# --------------------------------------------------------------------------- adapters ----

class Adapter:
    prefix = "R"
    faultable = True
    rereads = False
    prereq = None
    sets_prereq = False
    weight = 1.0

    def __init__(self, id, group, target, covers=None, gen=None, files=None, exports=None, outputs=None,
                 canon=None, call=None, **kw):
        self.id, self.group, self.target = id, group, target
        self._gen, self._files, self._exports, self._outputs, self._canon, self._call = gen, files, exports, outputs, canon, call
        for k, v in kw.items():
            setattr(self, k, v)
        REG[id] = self
        GROUPS.setdefault(group, []).append(id)
        for c in (covers if covers is not None else [target]):
            COVERS[c] = id

    def gen(self, w, rng):
        return self._gen(w, rng)

    def kwargs(self, w, op):
        kw = {k: w.val(v) for k, v in op.get("args", {}).items()}
        if op.get("respell"):
            # the same inputs spelled another way: a dict with its items inserted in the opposite
            # order (an equal dict).  (Plain numbers as numpy scalars were tried and withdrawn: with
            # single-precision coordinates NumPy's promotion rules legitimately change the last
            # bits - float32 + python float stays float32, float32 + np.float64 is rounded once
            # more - and a finite difference amplifies that beyond any tight tolerance.)
            for k, v in list(kw.items()):
                if type(v) is dict:
                    kw[k] = {kk: v[kk] for kk in reversed(list(v))}
        return kw

    def run(self, w, op):
        if self._call is not None:
            return self._call(w, op, self.kwargs(w, op))
        return lib(self.target)(**self.kwargs(w, op))

    def canon_result(self, w, op, res):
        from worlds.c18 import plain
        if self._canon is not None:
            return self._canon(w, op, res)
        return plain(res)

    def outputs(self, w, op):
        return self._outputs(w, op) if self._outputs else []

    def exports(self, w, op, res):
        return self._exports(w, op, res) if self._exports else []

    def check_files(self, w, op, res):
        if not self._files:
            return 0
        n = 0
        for path, expected, fmt in self._files(w, op, res):
            compare_file(self.id, path, expected, fmt)
            n += 1
        return n


class Ctor(Adapter):
    prefix = "O"

    def __init__(self, id, group, target, cls, **kw):
        super().__init__(id, group, target, covers=kw.pop("covers", [target, target + ".__init__"]), **kw)
        self.cls = cls

    def canon_result(self, w, op, res):
        from worlds.c18 import obj_state
        return obj_state(res)

    def exports(self, w, op, res):
        tag = {"cls": self.cls, "role": "object", "files": dict(op.get("reads", {}))}
        tag.update(op.get("meta", {}))
        return [("", "obj", res, tag)] + (self._exports(w, op, res) if self._exports else [])


class Method(Adapter):
    def __init__(self, id, group, target, cls, name, **kw):
        super().__init__(id, group, target, **kw)
        self.cls, self.name = cls, name

    def run(self, w, op):
        obj = w.val({"$": op["obj"]})
        if self._call is not None:
            return self._call(w, op, obj, self.kwargs(w, op))
        return getattr(obj, self.name)(**self.kwargs(w, op))


def objects(w, cls, pred=None):
    return sorted(n for n, e in w.pool.items() if e.kind == "obj" and e.tag.get("cls") == cls and (pred is None or pred(e.tag)))


def method_op(w, rng, cls, args=None, pred=None, prereq=False, rereads=False):
    c = objects(w, cls, pred)
    if not c:
        return None
    o = rng.choice(c)
    op = {"obj": o, "args": args or {}}
    e = w.pool[o]
    if prereq:
        if e.tag.get("prereq_done") is None:
            return None
        op["after"] = [e.tag["prereq_done"]]
    if rereads:
        for p, src in e.tag.get("files", {}).items():
            if p not in w.files or w.files[p]["src"] != src:
                return None
        op["reads"] = dict(e.tag.get("files", {}))
    return op


# -------------------------------------------------------------------- file comparison ----

def _close(got, exp, decimals):
    got = np.asarray(got)
    exp = np.asarray(exp)
    if got.shape != exp.shape:
        return False, f"shape {got.shape} vs returned {exp.shape}"
    if exp.dtype.kind == "c":
        return False, "complex values in a text file"
    g = got.astype(float)
    e = exp.astype(float)
    with np.errstate(all="ignore"):
        if decimals is None:
            bad = ~((g == e) | ((g != g) & (e != e)))
        else:
            tol = 0.5 * 10.0 ** (-decimals) * (1 + 1e-7) + 8 * np.spacing(np.abs(np.where(np.isfinite(e), e, 0.0)))
            bad = ~((np.abs(g - e) <= tol) | ((g != g) & (e != e)) | (g == e))
    if bad.any():
        k = int(np.argmax(bad.ravel()))
        return False, f"{int(bad.sum())} of {bad.size} values differ; first at flat index {k}: file {g.ravel()[k]!r} vs returned {e.ravel()[k]!r}"
    return True, ""


_DECIMALS = re.compile(r"(?<![\w.+-])-?\d+\.(\d+)(?![\d.eE])")


def compare_file(tag, path, expected, fmt):
    from worlds.c18 import quiet_io, same_bits
    if callable(expected):
        # derived comparison: expected(path) -> None or a description of the disagreement
        with quiet_io():
            if not os.path.exists(path):
                raise Violation(f"C18/I3-file-vs-returned:{tag}:{fmt}", f"the requested output file {path} was not written")
            why = expected(path)
        if why:
            raise Violation(f"C18/I3-file-vs-returned:{tag}:{fmt}", f"{path} does not hold the returned values: {why}")
        return
    kind = fmt.split(":")[0]
    sig = f"C18/I3-file-vs-returned:{tag}:{kind}"
    with quiet_io():
        if not os.path.exists(path):
            raise Violation(sig, f"the requested output file {path} was not written")
        if kind == "npy":
            got = np.load(path, allow_pickle=False)
            if not same_bits(np.asarray(expected), got):
                ok, why = _close(got, expected, None) if got.dtype.kind != "c" else (False, "complex array differs")
                raise Violation(sig, f"{path} does not hold the returned array: {why or 'dtype/shape differ'} "
                                     f"({got.dtype}{got.shape} vs {np.asarray(expected).dtype}{np.asarray(expected).shape})")
            return
        dec = fmt.split(":")[1]
        decimals = None if dec == "repr" else (0 if dec == "d" else int(dec))
        if decimals:
            # "to the written precision": if the file visibly carries fewer decimals than the
            # format this adapter knows, the file's own precision is the yardstick
            with open(path, "r", encoding="utf-8", errors="replace") as fh:
                found = [len(m) for m in _DECIMALS.findall(fh.read(1 << 20))]
            if found:
                decimals = min(decimals, min(found))
        if kind == "csv":
            got = pd.read_csv(path, float_precision="round_trip")
            if not isinstance(expected, pd.DataFrame):
                raise Violation(sig, "returned value is not a DataFrame")
            if [str(c) for c in got.columns] != [str(c) for c in expected.columns]:
                raise Violation(sig, f"{path}: columns {list(got.columns)} vs returned {list(expected.columns)}")
            ok, why = _close(got.to_numpy(dtype=float), expected.to_numpy(dtype=float), decimals)
        elif kind == "txt":
            skip = int(fmt.split(":")[2]) if fmt.count(":") >= 2 else 0
            got = np.loadtxt(path, ndmin=2, skiprows=skip)
            exp = np.asarray(expected)
            if exp.ndim == 1:
                exp = exp[:, None]
            ok, why = _close(got, exp, decimals)
        else:
            raise ValueError(fmt)
    if not ok:
        raise Violation(sig, f"{path} (format {fmt}) does not hold the returned values: {why}")
