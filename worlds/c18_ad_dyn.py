"""C18 adapters, part 2: dynamics, time correlation, coarse graining."""
import numpy as np

from worlds.c18_base import (Adapter, Ctor, Method, comp, conds, maybe_default, method_op, nlfiles, npy_name,
                             outpath, pick_base, ref)


def _csv_arg(fmt, key="outputfile"):
    def files(w, op, res):
        p = op["args"].get(key)
        return [(p, res, fmt)] if p else []
    return files


# --------------------------------------------------------------------------- Dynamics ----

def _gen_dyn_init(log):
    def gen(w, rng):
        s = pick_base(w, rng, (lambda t: t["T"] >= 2) if log else (lambda t: t["T"] >= 2 and t["lin"]))
        if s is None:
            return None
        t = w.pool[s].tag
        mode = rng.choice(["xu", "x", "both"])
        if mode == "x" and not any(t["mask"]):
            mode = "xu"
        args = {}
        if mode in ("xu", "both"):
            args["xu_snapshots"] = ref(comp(w, s, ".xu"))
        if mode in ("x", "both"):
            args["x_snapshots"] = ref(s)
        args["ppp"] = ref(comp(w, s, ".ppp" if mode == "x" else rng.choice([".ppp", ".ppp0"])))
        args["dt"] = rng.choice([0.002, 0.005])
        args["diameters"] = ref(comp(w, s, ".diam"))
        args["a"] = rng.choice([0.3, 0.5, 1.0])
        args["cal_type"] = rng.choice(["slow", "fast"])
        reads = {}
        if rng.random() < 0.4:
            c = nlfiles(w, s, kinds=("nn", "cut", "vor"))
            if log:
                c = [p for p in c]
            if c:
                p = rng.choice(c)
                args["neighborfile"] = p
                args["max_neighbors"] = rng.choice([30, 30, max(1, w.files[p]["maxcn"] - 1)])
                reads[p] = w.files[p]["src"]
                maybe_default(w, rng, args, "max_neighbors", ok=args["max_neighbors"] == 30)
        maybe_default(w, rng, args, "diameters", ok=t["K"] <= 2)
        maybe_default(w, rng, args, "ppp", ok=(t["ndim"] == 3 and args["ppp"]["$"].endswith(".ppp0")))
        maybe_default(w, rng, args, "dt", ok=args["dt"] == 0.002)
        maybe_default(w, rng, args, "a", ok=args["a"] == 0.3)
        return {"args": args, "reads": reads, "meta": {"snaps": t["bundle"], "T": t["T"], "dt": args.get("dt", 0.002), "base": s}}
    return gen


Ctor("Dynamics.init", "dynamics", "dynamic.dynamics.Dynamics", "Dynamics", gen=_gen_dyn_init(False))
Ctor("LogDynamics.init", "dynamics", "dynamic.dynamics.LogDynamics", "LogDynamics", gen=_gen_dyn_init(True))


def _gen_relaxation(cls):
    def gen(w, rng):
        op = method_op(w, rng, cls)
        if op is None:
            return None
        tag = w.pool[op["obj"]].tag
        a = op["args"]
        a["qconst"] = rng.choice([6.283185307179586, 5.0, 7.2])
        if rng.random() < 0.5:
            b = tag["snaps"]
            c = conds(w, b, ("TN",), ("bool",))
            if c:
                n = rng.choice(c)
                a["condition"] = ref(n) if cls == "Dynamics" else ref(n, rng.randrange(len(w.pool[n].value)))
        out = outpath(w, rng, "csv")
        if out:
            a["outputfile"] = out
        maybe_default(w, rng, a, "qconst", ok=a["qconst"] == 6.283185307179586)
        return op
    return gen


Method("Dynamics.relaxation", "dynamics", "dynamic.dynamics.Dynamics.relaxation", "Dynamics", "relaxation",
       gen=_gen_relaxation("Dynamics"), files=_csv_arg("csv:repr"))
Method("LogDynamics.relaxation", "dynamics", "dynamic.dynamics.LogDynamics.relaxation", "LogDynamics", "relaxation",
       gen=_gen_relaxation("LogDynamics"), files=_csv_arg("csv:repr"))


def _gen_sq4(w, rng):
    op = method_op(w, rng, "Dynamics")
    if op is None:
        return None
    tag = w.pool[op["obj"]].tag
    base = w.pool[tag["base"]]
    if base.tag["cell"] != "ortho":
        return None
    steps = base.tag["steps"]
    k = rng.randint(1, tag["T"] - 1)
    a = op["args"]
    a["t"] = (steps[1] - steps[0]) * tag["dt"] * k
    # the same few wave-number ranges for every trajectory (as a user would): what a range
    # means depends on the box, so calls on different boxes collide on equal scalar arguments
    a["qrange"] = rng.choice([2.0, 2.5, 3.0] if base.tag["ndim"] == 3 else [2.0, 3.0, 4.0])
    if rng.random() < 0.4:
        c = conds(w, tag["snaps"], ("TN",), ("bool",))
        if c:
            a["condition"] = ref(rng.choice(c))
    out = outpath(w, rng, "csv")
    if out:
        a["outputfile"] = out
    return op


Method("Dynamics.sq4", "dynamics", "dynamic.dynamics.Dynamics.sq4", "Dynamics", "sq4", gen=_gen_sq4, files=_csv_arg("csv:repr"))


def _gen_cage_relative(w, rng):
    cn = sorted(n for n, e in w.pool.items() if e.kind == "arr" and e.tag.get("role") == "cnlist"
                and e.value.shape[1] >= 2 and (e.value[:, 0] >= 1).all() and e.tag["snaps"] in w.pool)
    if not cn:
        # no neighbour table read yet: the analyst reads one first
        from worlds.c18_base import REG
        op = REG["read_neighbors"].gen(w, rng)
        return None if op is None else dict(op, **{"as": "read_neighbors"})
    n = rng.choice(cn)
    b = w.pool[n].tag["snaps"]
    c = conds(w, b, ("TNd",), ("float",))
    if not c:
        return None
    v = rng.choice(c)
    return {"args": {"RII": ref(v, rng.randrange(len(w.pool[v].value))), "cnlist": ref(n)}}


Adapter("cage_relative", "dynamics", "dynamic.dynamics.cage_relative", gen=_gen_cage_relative, faultable=False, weight=2.5)


def _gen_pad_cnlist(w, rng):
    cn = sorted(n for n, e in w.pool.items() if e.kind == "arr" and e.tag.get("role") == "cnlist" and not e.tag.get("padded")
                and e.value.ndim == 2 and e.value.shape[1] >= 2 and e.tag["snaps"] in w.pool
                and (e.value[:, 0] < e.value.shape[1] - 1).any())
    if not cn:
        from worlds.c18_base import REG
        op = REG["read_neighbors"].gen(w, rng)
        return None if op is None else dict(op, **{"as": "read_neighbors"})
    return {"args": {"cnlist": ref(rng.choice(cn)), "fill": rng.choice([-1, -1, "N", 2 ** 31 - 1])}}


def _call_pad_cnlist(w, op, kw):
    # the analyst's own neighbour table: the lists the library read, the unused slots holding the
    # sentinel other tools use (-1 as scipy / ASE do, the particle number, INT_MAX) instead of 0
    a = np.array(kw["cnlist"], copy=True)
    fill = a.shape[0] if kw["fill"] == "N" else kw["fill"]
    cols = np.arange(1, a.shape[1])[None, :]
    a[:, 1:][cols > a[:, :1]] = fill
    return a


def _exp_pad_cnlist(w, op, res):
    src = w.pool[op["args"]["cnlist"]["$"]].tag
    return [("", "arr", res, {"role": "cnlist", "snaps": src["snaps"], "frame": src.get("frame"), "result": True, "padded": True})]


Adapter("client.pad_cnlist", "dynamics", "dynamic.dynamics.cage_relative#client-table", covers=[], gen=_gen_pad_cnlist,
        call=_call_pad_cnlist, exports=_exp_pad_cnlist, faultable=False, weight=1.5)


# --------------------------------------------------------------------- time correlation ----

def _gen_time_corr(w, rng):
    s = pick_base(w, rng, lambda t: t["T"] >= 2)
    if s is None:
        return None
    c = conds(w, s, ("TN", "TNd", "TNdd", "TNm"), ("float", "complex"))
    c = [n for n in c if len(w.pool[n].value) == w.pool[s].tag["T"]]
    if not c:
        return None
    args = {"snapshots": ref(s), "condition": ref(rng.choice(c)), "dt": rng.choice([0.002, 0.01])}
    out = outpath(w, rng, "csv")
    if out:
        args["outputfile"] = out
    maybe_default(w, rng, args, "dt", ok=args["dt"] == 0.002)
    return {"args": args}


Adapter("time_correlation", "dynamics", "dynamic.time_corr.time_correlation", gen=_gen_time_corr, files=_csv_arg("csv:8"))


# ---------------------------------------------------------------------- coarse graining ----

def _gen_time_average(w, rng):
    s = pick_base(w, rng, lambda t: t["T"] >= 2)
    if s is None:
        return None
    t = w.pool[s].tag
    c = [n for n in conds(w, s, ("TN",), ("float", "complex")) if len(w.pool[n].value) == t["T"]]
    if not c:
        return None
    dt = rng.choice([0.002, 0.01])
    k = rng.randint(1, t["T"])
    interval = (t["steps"][1] - t["steps"][0]) * dt
    args = {"snapshots": ref(s), "input_property": ref(rng.choice(c)), "time_period": interval * (k + 0.5), "dt": dt}
    maybe_default(w, rng, args, "dt", ok=dt == 0.002)
    return {"args": args, "meta": {"snaps": t["bundle"]}}


def _exp_TN(dtype, shape="TN", pick=None):
    def exports(w, op, res):
        v = res if pick is None else res[pick]
        b = op.get("meta", {}).get("snaps")
        if b is None and "obj" in op:
            b = w.pool[op["obj"]].tag.get("snaps")
        return [("", "arr", v, {"role": "condition", "shape": shape, "dtype": dtype, "snaps": b, "result": True})]
    return exports


Adapter("time_average", "coarse", "utils.coarse_graining.time_average", gen=_gen_time_average,
        exports=_exp_TN("complex", pick=0), faultable=False)


def _gen_spatial_average(w, rng):
    s = pick_base(w, rng)
    if s is None:
        return None
    t = w.pool[s].tag
    nl = [p for p in nlfiles(w, s, need_cn=False) if w.files[p]["frames"] >= t["T"]]
    c = [n for n in conds(w, s, ("TN", "TNd", "TNdd"), ("float", "complex")) if len(w.pool[n].value) <= t["T"]]
    if not nl or not c:
        return None
    p = rng.choice(nl)
    n = rng.choice(c)
    e = w.pool[n]
    args = {"input_property": ref(n), "neighborfile": p, "Nmax": rng.choice([30, 2, max(1, w.files[p]["maxcn"])])}
    out = outpath(w, rng, "npy")
    if out:
        args["outputfile"] = out
    maybe_default(w, rng, args, "Nmax", ok=args["Nmax"] == 30)
    return {"args": args, "reads": {p: w.files[p]["src"]},
            "meta": {"snaps": t["bundle"], "shape": e.tag["shape"], "dtype": e.tag["dtype"]}}


def _exp_spatial_average(w, op, res):
    m = op["meta"]
    return [("", "arr", res, {"role": "condition", "shape": m["shape"], "dtype": m["dtype"], "snaps": m["snaps"], "result": True})]


def _npy_arg(key="outputfile", part=None, suffix=""):
    def files(w, op, res):
        p = op["args"].get(key)
        if not p:
            return []
        return [(npy_name(p + suffix), res if part is None else res[part], "npy")]
    return files


Adapter("spatial_average", "coarse", "utils.coarse_graining.spatial_average", gen=_gen_spatial_average,
        exports=_exp_spatial_average, files=_npy_arg())


def _gen_gaussian_blurring(w, rng):
    s = pick_base(w, rng, lambda t: t["N"] <= 14)
    if s is None:
        return None
    t = w.pool[s].tag
    c = [n for n in conds(w, s, ("TN", "TNd", "TNdd"), ("float",)) if len(w.pool[n].value) == t["T"]]
    if not c:
        return None
    args = {"snapshots": ref(s), "condition": ref(rng.choice(c)), "ngrids": ref(comp(w, s, ".ngrids")),
            "sigma": rng.choice([2.0, 0.8]), "ppp": ref(comp(w, s, ".ppp")), "gaussian_cut": rng.choice([6.0, 2.5])}
    out = outpath(w, rng, "prefix")
    if out:
        args["outputfile"] = out
    maybe_default(w, rng, args, "ppp", ok=t["allper"])       # the default [1,1,1] is cut to the dimension
    maybe_default(w, rng, args, "sigma", ok=args["sigma"] == 2.0)
    maybe_default(w, rng, args, "gaussian_cut", ok=args["gaussian_cut"] == 6.0)
    return {"args": args}


def _files_blurring(w, op, res):
    p = op["args"].get("outputfile")
    if not p:
        return []
    return [(p + "_positions.npy", res[0], "npy"), (p + "_properties.npy", res[1], "npy")]


Adapter("gaussian_blurring", "coarse", "utils.coarse_graining.gaussian_blurring", gen=_gen_gaussian_blurring,
        files=_files_blurring, weight=0.6)
