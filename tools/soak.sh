#!/bin/bash
# usage: tools/soak.sh <first seed> <last seed> [props...]   quick tier of every property under many VERIF_SEEDs;
# stops at the first run that does not exit 0 (a false alarm on the unchanged tree is the worst defect a check can have)
a=$1; b=$2; shift 2
props=${@:-C05 C18 C19 C20}
export VERIF_EVIDENCE_DIR=$(mktemp -d /tmp/soak-ev-XXXX) VERIF_REPLAY_DIR=$(mktemp -d /tmp/soak-rp-XXXX)
for s in $(seq $a $b); do
  for p in $props; do
    VERIF_SEED=$s ./check $p --tier quick > /tmp/soak-$p-$s.log 2>&1; rc=$?
    echo "seed=$s prop=$p rc=$rc $(grep -a '^done' /tmp/soak-$p-$s.log | cut -c1-120)"
    if [ $rc -ne 0 ]; then echo "STOP: see /tmp/soak-$p-$s.log replays in $VERIF_REPLAY_DIR"; grep -a "violation candidate\|HARNESS" /tmp/soak-$p-$s.log | cut -c1-400; exit 1; fi
    rm -f /tmp/soak-$p-$s.log
  done
done
echo "soak clean: seeds $a..$b props $props"
