#!/bin/bash
# usage: verify_seeded.sh <dir with patch.diff demo.py> <id> [pytest targets...]
# Confirms a candidate breaking change in a scratch worktree: demo passes clean, fails patched,
# the repository's test suite (or the given targets) passes with the patch.  Log: /tmp/verify_<id>.log
src=$1; id=$2; shift 2
wt=/tmp/vs-$id
log=/tmp/verify_$id.log
rm -rf $wt; git -C /repo worktree prune
git -C /repo worktree add --detach -q $wt HEAD || exit 9
mkdir -p $wt/SEEDED_DEMO; cp $src/demo.py $wt/SEEDED_DEMO/demo.py
{
cd $wt
timeout 900 /venv/bin/python SEEDED_DEMO/demo.py > /tmp/vs-$id.clean.out 2>&1; echo "demo_clean_rc=$?"
git apply $src/patch.diff; echo "apply_rc=$?"
timeout 900 /venv/bin/python SEEDED_DEMO/demo.py > /tmp/vs-$id.patched.out 2>&1; echo "demo_patched_rc=$?"
if [ $# -gt 0 ]; then tgt="$@"; else tgt=""; fi
timeout 3000 /venv/bin/python -m pytest -q -p no:cacheprovider --timeout=900 --continue-on-collection-errors $tgt 2>&1 | tail -15
} > $log 2>&1
cd /; git -C /repo worktree remove --force $wt
