#!/usr/bin/env python3
"""Negative controls written by independent agents: property-PRESERVING changes kept under
/verif/benign/<id>/ (patch.diff, NOTES.md, meta.json).  Each patch is applied to a scratch
worktree of /repo under /tmp (never to /repo itself), the quick checks of the properties named
in meta["properties"] are pointed at it through VERIF_REPO and must stay silent (exit 0).

usage: tools/benign.py [id ...] [--wall 60] [--tier quick] [--src DIR]   (--src: candidates outside /verif/benign)
"""
import json
import os
import shutil
import subprocess
import sys
import tempfile

HERE = os.path.dirname(os.path.dirname(os.path.abspath(__file__)))


def sh(cmd, **kw):
    return subprocess.run(cmd, capture_output=True, text=True, **kw)


def main():
    opts = sys.argv[1:]
    wall = opts[opts.index("--wall") + 1] if "--wall" in opts else "60"
    tier = opts[opts.index("--tier") + 1] if "--tier" in opts else "quick"
    src = opts[opts.index("--src") + 1] if "--src" in opts else os.path.join(HERE, "benign")
    props_opt = opts[opts.index("--props") + 1].split(",") if "--props" in opts else None
    skip = {wall, tier, src} | ({opts[opts.index("--props") + 1]} if props_opt else set())
    only = [a for a in opts if not a.startswith("--") and a not in skip]
    ids = sorted(d for d in os.listdir(src) if os.path.isfile(os.path.join(src, d, "patch.diff")))
    rows = []
    for bid in ids:
        if only and bid not in only:
            continue
        d = os.path.join(src, bid)
        meta = json.load(open(os.path.join(d, "meta.json"))) if os.path.exists(os.path.join(d, "meta.json")) else {}
        props = props_opt or meta.get("properties") or ["C05", "C18", "C19", "C20"]
        wt = tempfile.mkdtemp(prefix=f"benign-{bid}-", dir="/tmp")
        os.rmdir(wt)
        sh(["git", "-C", "/repo", "worktree", "add", "--detach", "-q", wt, "HEAD"], check=True)
        try:
            p = sh(["git", "-C", wt, "apply", os.path.join(d, "patch.diff")])
            if p.returncode != 0:
                rows.append((bid, "-", "PATCH-DOES-NOT-APPLY", p.stderr.strip()[:200]))
                print(rows[-1], flush=True)
                continue
            for prop in props:
                scratch = tempfile.mkdtemp(prefix="benign-out-", dir="/tmp")
                env = dict(os.environ, VERIF_REPO=wt, VERIF_EVIDENCE_DIR=scratch, VERIF_REPLAY_DIR=scratch)
                cmd = [os.path.join(HERE, "check"), prop, "--tier", tier, "--no-selftest"]
                if tier == "quick":
                    cmd += ["--wall", wall]
                r = sh(cmd, env=env, timeout=7200)
                sigs = [ln.replace("violation candidate ", "").split(" runs")[0] for ln in r.stdout.splitlines()
                        if ln.startswith("violation candidate")]
                verdict = {0: "silent (ok)", 1: "FALSE-ALARM?", 2: "HARNESS-ERROR"}.get(r.returncode, f"rc={r.returncode}")
                rows.append((bid, prop, verdict, "; ".join(sigs)[:500]))
                if r.returncode != 0:
                    keep = f"/tmp/benign-{bid}-{prop}.log"
                    open(keep, "w").write(r.stdout + "\n" + r.stderr)
                    for f in os.listdir(scratch):
                        if f.endswith(".json") and "replay" in f or f.startswith(prop + "-"):
                            shutil.copy(os.path.join(scratch, f), f"/tmp/benign-{bid}-{f}")
                    rows[-1] = rows[-1][:3] + (rows[-1][3] + f"  [log {keep}]",)
                shutil.rmtree(scratch, ignore_errors=True)
                print(f"{rows[-1][0]:34s} {rows[-1][1]} {rows[-1][2]:16s} {rows[-1][3]}", flush=True)
        finally:
            sh(["git", "-C", "/repo", "worktree", "remove", "--force", wt])
            shutil.rmtree(wt, ignore_errors=True)
    print("\nsummary:")
    for r in rows:
        print(f"  {r[0]:34s} {r[1]} {r[2]:16s} {r[3]}")


if __name__ == "__main__":
    main()
