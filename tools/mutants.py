#!/usr/bin/env python3
"""Sensitivity runs: apply each text mutant to a scratch worktree of /repo (outside /repo
and /verif), point the quick check at it through VERIF_REPO, report detected / missed,
remove the worktree.   usage: tools/mutants.py C05 [id ...] [--wall 40] [--runs N]"""
import json
import os
import shutil
import subprocess
import sys
import tempfile

HERE = os.path.dirname(os.path.dirname(os.path.abspath(__file__)))


def main():
    args = [a for a in sys.argv[1:] if not a.startswith("--")]
    opts = sys.argv[1:]
    wall = opts[opts.index("--wall") + 1] if "--wall" in opts else "40"
    runs = opts[opts.index("--runs") + 1] if "--runs" in opts else None
    args = [a for a in args if a not in (wall, runs)]
    prop = args[0]
    only = set(args[1:])
    muts = json.load(open(os.path.join(HERE, "mutants", f"{prop}.json")))
    rows = []
    for m in muts:
        if only and m["id"] not in only:
            continue
        wt = tempfile.mkdtemp(prefix=f"mut-{m['id']}-", dir="/tmp")
        os.rmdir(wt)
        subprocess.run(["git", "-C", "/repo", "worktree", "add", "--detach", "-q", wt, "HEAD"], check=True)
        try:
            ok = True
            for e in m["edits"]:
                path = os.path.join(wt, e["file"])
                s = open(path).read()
                if s.count(e["old"]) < 1:
                    print(f"{m['id']}: pattern not found in {e['file']}: {e['old']!r}")
                    ok = False
                    break
                s = s.replace(e["old"], e["new"], e.get("count", 1))
                open(path, "w").write(s)
            if not ok:
                rows.append((m["id"], "PATTERN-MISSING", ""))
                continue
            scratch = tempfile.mkdtemp(prefix="mut-out-", dir="/tmp")
            env = dict(os.environ, VERIF_REPO=wt, VERIF_EVIDENCE_DIR=scratch, VERIF_REPLAY_DIR=scratch)
            cmd = [os.path.join(HERE, "check"), m.get("property", prop), "--tier", "quick", "--no-selftest", "--wall", wall]
            if runs:
                cmd += ["--runs", runs]
            p = subprocess.run(cmd, env=env, capture_output=True, text=True, timeout=1800)
            sigs = [ln for ln in p.stdout.splitlines() if ln.startswith("violation candidate")]
            verdict = {0: "MISSED", 1: "DETECTED", 2: "HARNESS-ERROR"}.get(p.returncode, f"rc={p.returncode}")
            expect = m.get("expect", "detect")
            good = (verdict == "DETECTED") == (expect == "detect")
            rows.append((m["id"], verdict + ("" if good else "  <-- UNEXPECTED"), "; ".join(s.split(":", 1)[0].replace("violation candidate ", "") + ":" + s.split(":", 1)[1].split(" runs")[0] for s in sigs)[:300]))
            if p.returncode == 2 or not good:
                print(p.stdout[-1500:])
            shutil.rmtree(scratch, ignore_errors=True)
        finally:
            subprocess.run(["git", "-C", "/repo", "worktree", "remove", "--force", wt])
        print(f"{rows[-1][0]:34s} {rows[-1][1]:14s} {rows[-1][2]}", flush=True)
    print("\nsummary:")
    for r in rows:
        print(f"  {r[0]:34s} {r[1]:14s} {r[2]}")


if __name__ == "__main__":
    main()
