#!/usr/bin/env python3
"""Run the quick checks against the seeded breaking changes kept under /verif/seeded/<id>/
(patch.diff, demo, meta.json).  Each patch is applied to a scratch worktree of /repo under
/tmp (never to /repo itself), the property's quick check is pointed at it through
VERIF_REPO, the verdict is printed, the worktree is removed.

usage: tools/seeded.py [id ...] [--wall 60] [--tier quick] [--demo]   (--demo also runs the demonstration both ways)
"""
import json
import os
import shutil
import subprocess
import sys
import tempfile

HERE = os.path.dirname(os.path.dirname(os.path.abspath(__file__)))
SEEDED = os.path.join(HERE, "seeded")


def sh(cmd, **kw):
    return subprocess.run(cmd, capture_output=True, text=True, **kw)


def main():
    opts = sys.argv[1:]
    wall = opts[opts.index("--wall") + 1] if "--wall" in opts else "60"
    tier = opts[opts.index("--tier") + 1] if "--tier" in opts else "quick"
    demo = "--demo" in opts
    only = [a for a in opts if not a.startswith("--") and a not in (wall, tier)]
    ids = sorted(d for d in os.listdir(SEEDED) if os.path.isdir(os.path.join(SEEDED, d)))
    rows = []
    for sid in ids:
        if only and sid not in only:
            continue
        d = os.path.join(SEEDED, sid)
        meta = json.load(open(os.path.join(d, "meta.json")))
        wt = tempfile.mkdtemp(prefix=f"seeded-{sid}-", dir="/tmp")
        os.rmdir(wt)
        sh(["git", "-C", "/repo", "worktree", "add", "--detach", "-q", wt, "HEAD"], check=True)
        try:
            demo_note = ""
            if demo:
                os.makedirs(os.path.join(wt, "SEEDED_DEMO"))
                dfile = os.path.join(wt, "SEEDED_DEMO", "demo.py")
                shutil.copy(os.path.join(d, meta["demo"]), dfile)
                clean = sh(["/venv/bin/python", dfile], cwd=wt, timeout=900)
            p = sh(["git", "-C", wt, "apply", os.path.join(d, "patch.diff")])
            if p.returncode != 0:
                rows.append((sid, meta["property"], "PATCH-DOES-NOT-APPLY", p.stderr.strip()[:200]))
                continue
            if demo:
                broken = sh(["/venv/bin/python", dfile], cwd=wt, timeout=900)
                demo_note = f" demo clean={clean.returncode} patched={broken.returncode}"
            scratch = tempfile.mkdtemp(prefix="seeded-out-", dir="/tmp")
            env = dict(os.environ, VERIF_REPO=wt, VERIF_EVIDENCE_DIR=scratch, VERIF_REPLAY_DIR=scratch)
            cmd = [os.path.join(HERE, "check"), meta["property"], "--tier", tier, "--no-selftest"]
            if tier == "quick":
                cmd += ["--wall", wall]
            r = sh(cmd, env=env, timeout=7200)
            sigs = [ln.replace("violation candidate ", "").split(" runs")[0] for ln in r.stdout.splitlines()
                    if ln.startswith("violation candidate")]
            verdict = {0: "MISSED", 1: "DETECTED", 2: "HARNESS-ERROR"}.get(r.returncode, f"rc={r.returncode}")
            rows.append((sid, meta["property"], verdict + demo_note, "; ".join(sigs)[:400]))
            if r.returncode == 2:
                print(r.stdout[-2000:])
            shutil.rmtree(scratch, ignore_errors=True)
        finally:
            sh(["git", "-C", "/repo", "worktree", "remove", "--force", wt])
            shutil.rmtree(wt, ignore_errors=True)
        print(f"{rows[-1][0]:28s} {rows[-1][1]} {rows[-1][2]:30s} {rows[-1][3]}", flush=True)
    print("\nsummary:")
    for r in rows:
        print(f"  {r[0]:28s} {r[1]} {r[2]:30s} {r[3]}")


if __name__ == "__main__":
    main()
