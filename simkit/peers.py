"""In-process stand-ins for the external peers that are absent on this image.

* HOOMD: modules `gsd`, `gsd.hoomd` and `mdtraj.formats` are put into sys.modules so that
  the library's own `read_gsd_wrapper` / `read_gsd_dcd_wrapper` (which import them lazily)
  run as shipped.  The stub file format is a .npz archive the stub HOOMD process writes;
  `gsd.hoomd.open` / `DCDTrajectoryFile` read it through builtins.open, i.e. through the
  simulated disk, and hand out duck-typed frame objects.
* voro++: the library shells out with subprocess.run("voro++ ..."); the module attribute
  `voropp_neighbors.subprocess` is replaced by an object whose `run` computes a tessellation
  in-process (freud for the geometry) and writes `<input>.vol` in voro++'s custom-output
  layout.  Geometrically faithful only for equal radii; a declared stub.

Nothing here touches a file of the repository.  Everything is deterministic.
"""
import io
import shlex
import sys
import types

import numpy as np

from . import simio

STUBS = []


# ------------------------------------------------------------------------------ HOOMD ----

class _NS:
    pass


class Frame:
    def __init__(self, step, dims, box, typeid, position):
        self.configuration = _NS()
        self.configuration.step = step
        self.configuration.dimensions = dims
        self.configuration.box = box
        self.particles = _NS()
        self.particles.N = len(typeid)
        self.particles.typeid = typeid
        self.particles.position = position


class Trajectory:
    """Duck-typed stand-in for gsd.hoomd.HOOMDTrajectory (indexing, iteration, len, close)."""

    def __init__(self, frames, name=None):
        self._frames = frames
        self.name = name
        self.closed = False

    def __len__(self):
        return len(self._frames)

    def __getitem__(self, i):
        return self._frames[i]

    def __iter__(self):
        return iter(self._frames)

    def close(self):
        self.closed = True

    def __enter__(self):
        return self

    def __exit__(self, *a):
        self.close()


class DCD:
    """Duck-typed stand-in for mdtraj.formats.DCDTrajectoryFile."""
    opened = []       # names handed to the constructor (probe: which file the wrapper derived)

    def __init__(self, xyz, lengths=None, name=None):
        self._xyz, self._lengths = xyz, lengths
        self.name = name
        self.closed = False

    def read(self):
        ang = np.full((self._xyz.shape[0], 3), 90.0, dtype=np.float32)
        lengths = self._lengths if self._lengths is not None else np.ones((self._xyz.shape[0], 3), dtype=np.float32)
        return self._xyz, lengths, ang

    def close(self):
        self.closed = True


MAGIC = b"STUBGSD1"


def _frame_blob(fr):
    buf = io.BytesIO()
    np.savez(buf, step=np.array(fr.configuration.step), dims=np.array(fr.configuration.dimensions),
             box=np.asarray(fr.configuration.box), typeid=np.asarray(fr.particles.typeid), pos=np.asarray(fr.particles.position))
    return buf.getvalue()


def write_gsd(path, frames):
    """Stub HOOMD process: frames -> stub .gsd (magic, then per frame an 8-byte length and an
    .npz blob), written outside the simulated disk."""
    with simio.real_open(path, "wb") as f:
        f.write(MAGIC)
        for fr in frames:
            blob = _frame_blob(fr)
            f.write(len(blob).to_bytes(8, "little"))
            f.write(blob)


def write_dcd(path, xyz, lengths):
    buf = io.BytesIO()
    np.savez(buf, xyz=np.asarray(xyz), lengths=np.asarray(lengths))
    with simio.real_open(path, "wb") as f:
        f.write(buf.getvalue())


class FileTrajectory:
    """Stand-in for gsd.hoomd.HOOMDTrajectory on a stub file: the file stays open, the frame
    index is read at open, every frame is fetched from the (simulated) disk when it is asked
    for and handed out as new arrays - as the real reader does."""

    def __init__(self, name):
        self.name = name
        self._f = open(name, "rb")            # builtins.open: the simulated disk
        if self._f.read(8) != MAGIC:
            self._f.close()
            raise RuntimeError(f"{name}: not a (stub) GSD file")
        self._index = []
        pos = 8
        while True:
            head = self._f.read(8)
            if len(head) < 8:
                break
            n = int.from_bytes(head, "little")
            self._index.append((pos + 8, n))
            pos += 8 + n
            self._f.seek(pos)
        self.closed = False

    def __len__(self):
        return len(self._index)

    def _fetch(self, i):
        off, n = self._index[i]
        self._f.seek(off)
        data = self._f.read(n)
        if len(data) != n:
            raise OSError(5, f"{self.name}: frame {i} is truncated")
        z = np.load(io.BytesIO(data), allow_pickle=False)
        return Frame(int(z["step"]), int(z["dims"]), z["box"], z["typeid"], z["pos"])

    def __getitem__(self, i):
        if isinstance(i, slice):
            return [self._fetch(k) for k in range(*i.indices(len(self)))]
        if i < 0:
            i += len(self)
        if not 0 <= i < len(self):
            raise IndexError(i)
        return self._fetch(i)

    def __iter__(self):
        for i in range(len(self)):
            yield self._fetch(i)

    def close(self):
        if not self.closed:
            self.closed = True
            self._f.close()

    def __enter__(self):
        return self

    def __exit__(self, *a):
        self.close()


def _load_npz(name):
    with open(name, "rb") as f:          # builtins.open: the simulated disk
        data = f.read()
    z = np.load(io.BytesIO(data), allow_pickle=False)
    return {k: z[k] for k in z.files}


def gsd_open(name, mode="r"):
    if mode not in ("r", "rb"):
        raise ValueError(f"stub gsd.hoomd.open: unsupported mode {mode!r}")
    return FileTrajectory(name)


def dcd_open(name, mode="r", force_overwrite=True):
    DCD.opened.append(name)
    if mode != "r":
        raise ValueError(f"stub DCDTrajectoryFile: unsupported mode {mode!r}")
    z = _load_npz(name)
    return DCD(z["xyz"], z["lengths"], name)


def install_hoomd():
    if "gsd" in sys.modules and not getattr(sys.modules["gsd"], "__verif_stub__", False):
        return False                      # a real gsd is installed: leave it alone
    gsd = types.ModuleType("gsd")
    gsd.__verif_stub__ = True
    hoomd = types.ModuleType("gsd.hoomd")
    hoomd.open = gsd_open
    hoomd.HOOMDTrajectory = FileTrajectory
    gsd.hoomd = hoomd
    sys.modules["gsd"] = gsd
    sys.modules["gsd.hoomd"] = hoomd
    md = types.ModuleType("mdtraj")
    md.__verif_stub__ = True
    fm = types.ModuleType("mdtraj.formats")
    fm.DCDTrajectoryFile = dcd_open
    md.formats = fm
    sys.modules["mdtraj"] = md
    sys.modules["mdtraj.formats"] = fm
    STUBS.append("gsd / gsd.hoomd / mdtraj.formats: in-process stub modules (stub .npz file format read through the simulated disk)")
    return True


# ------------------------------------------------------------------------------ voro++ ----

class _Completed:
    def __init__(self, rc):
        self.returncode = rc
        self.args = None
        self.stdout = None
        self.stderr = None


def _face_orders(k, area_rank):
    """Pseudo face orders (number of edges per face) for the %A table: deterministic, in 3..7."""
    return [3 + ((r * 7 + k) % 5) for r in area_rank]


def voro_run(cmdline, shell=True, check=False, **kw):
    """Stub of the voro++ command line the library builds:
       voro++ <-p|-px|-py|-pz ...> -r -c "<fmt>" xlo xhi ylo yhi zlo zhi <file>   -> <file>.vol"""
    import freud
    toks = shlex.split(cmdline) if isinstance(cmdline, str) else list(cmdline)
    if not toks or toks[0] != "voro++":
        return _Completed(127)
    per = [False, False, False]
    fmt = None
    rest = []
    i = 1
    while i < len(toks):
        t = toks[i]
        if t == "-p":
            per = [True, True, True]
        elif t in ("-px", "-py", "-pz"):
            per["xyz".index(t[2])] = True
        elif t == "-r":
            pass
        elif t == "-c":
            i += 1
            fmt = toks[i]
        elif t.startswith("-") and not _isnum(t):
            pass
        else:
            rest.append(t)
        i += 1
    if len(rest) != 7 or fmt is None:
        return _Completed(1)          # voro++ is 3D only: six bounds and a file name
    bounds = np.array([float(x) for x in rest[:6]]).reshape(3, 2)
    fname = rest[6]
    with open(fname, "r", encoding="utf-8") as f:
        rows = [ln.split() for ln in f.read().splitlines() if ln.strip()]
    data = np.array([[float(x) for x in r] for r in rows])
    if data.ndim != 2 or data.shape[1] != 5:
        return _Completed(1)
    ids = data[:, 0].astype(int)
    pos = data[:, 1:4]
    rad = data[:, 4]
    L = bounds[:, 1] - bounds[:, 0]
    centre = bounds[:, 0] + L / 2
    pts = pos - centre
    box = freud.box.Box.from_box(L)
    pts = box.wrap(pts)
    voro = freud.locality.Voronoi()
    voro.compute((box, pts))
    nl = voro.nlist
    ii = np.asarray(nl.query_point_indices)
    jj = np.asarray(nl.point_indices)
    ww = np.asarray(nl.weights, dtype=float)
    vols = np.asarray(voro.volumes, dtype=float)
    lines = []
    for k in range(len(ids)):
        sel = np.nonzero(ii == k)[0]
        neigh = []
        areas = []
        for s in sel:
            j = int(jj[s])
            d = pts[j] - pts[k]
            wall = None
            for a in range(3):
                if not per[a] and abs(d[a]) > L[a] / 2:
                    wall = -(2 * a + 1) if d[a] > 0 else -(2 * a + 2)   # reached through a non-periodic face
                    break
            neigh.append(wall if wall is not None else int(ids[j]))
            areas.append(ww[s] * (1.0 + 0.05 * (rad[k] - rad[j])))
        rank = list(np.argsort(np.argsort(areas))) if areas else []
        orders = _face_orders(k, rank)
        table = [0] * (max(orders) + 1 if orders else 1)
        for o in orders:
            table[o] += 1
        nf = len(neigh)
        part0 = f"{ids[k]} {nf} {vols[k] * (1.0 + 0.01 * (rad[k] - rad.mean())):g} {sum(areas):g} "
        part1 = f"{ids[k]} " + " ".join(str(x) for x in table) + " "
        part2 = f"{ids[k]} {nf} " + " ".join(str(x) for x in neigh) + " "
        part3 = f"{ids[k]} {nf} " + " ".join(f"{x:g}" for x in areas)
        lines.append(part0 + "@" + part1 + "@" + part2 + "@" + part3 + "\n")
    # voro++ emits the cells block by block of its spatial grid, not in id order: a fixed
    # permutation derived from the input stands in for that
    import hashlib
    seed = int(hashlib.sha256(("%d|" % len(lines) + cmdline if isinstance(cmdline, str) else str(len(lines))).encode()).hexdigest()[:8], 16)
    order = np.random.default_rng(seed).permutation(len(lines))
    with open(fname + ".vol", "w", encoding="utf-8") as f:
        f.write("".join(lines[k] for k in order))
    return _Completed(0)


def _isnum(t):
    try:
        float(t)
        return True
    except ValueError:
        return False


def install_voro():
    import subprocess
    from PyMatterSim.neighbors import voropp_neighbors as vn
    shim = types.SimpleNamespace(**{k: getattr(subprocess, k) for k in ("CalledProcessError", "CompletedProcess", "PIPE", "DEVNULL")})
    shim.run = voro_run
    vn.subprocess = shim
    STUBS.append("voro++ executable: in-process stub behind voropp_neighbors.subprocess.run (freud geometry, pseudo face orders; faithful for equal radii only)")
    return True
