"""The file seam: a permanent trampoline in builtins.open that hands paths under the active
run's sandbox to SimOpen.

SimOpen returns the *real* CPython I/O stack (TextIOWrapper over Buffered* over FileIO on a
real tmpfs file); thin subclasses number every client-visible call and every raw transfer,
feed them into the run's event digest and let the simulator raise a fault at the entry of a
chosen event.  Buffering, offsets, truncate-on-open and finalisation of leaked handles are
therefore CPython's own, not a model of them.

This module must be imported before numpy (numpy captures `open` at import time).
"""
import builtins
import errno
import hashlib
import io
import os

_REAL_OPEN = builtins.open
ACTIVE = None          # the IOSim of the run executing in this process, or None


def real_open(*a, **k):
    """The untouched builtin, for harness-side file access that must not count as events."""
    return _REAL_OPEN(*a, **k)


def _dispatch(file, mode="r", buffering=-1, encoding=None, errors=None, newline=None,
              closefd=True, opener=None):
    sim = ACTIVE
    if sim is not None and not isinstance(file, int) and opener is None:
        rel = sim.claims(file)
        if rel is not None:
            return sim.open(rel, mode, buffering, encoding, errors, newline)
    if sim is not None and isinstance(file, int) and not isinstance(file, bool) and opener is None:
        # os.fdopen(os.open(path, flags, mode)): a descriptor the caller opened itself (to choose
        # flags or permission bits) wrapped into a file object - same simulated disk
        try:
            rel = sim.claims(os.readlink(f"/proc/self/fd/{file}"))
        except OSError:
            rel = None
        if rel is not None:
            return sim.open(rel, mode, buffering, encoding, errors, newline, fd=file, closefd=closefd)
    return _REAL_OPEN(file, mode, buffering, encoding, errors, newline, closefd, opener)


_dispatch.__name__ = "open"
builtins.open = _dispatch
io.open = _dispatch

# which events a fault kind may fire at
APPLICABLE = {
    # A cancellation is delivered between two bytecodes of the client (= at the entry of one
    # of its calls) or out of an interrupted raw transfer (EINTR -> signal handler raises).
    # It is NOT delivered at the entry of close(): for `with open(...)` that call is made by
    # the interpreter's __exit__ protocol, inside which no handler runs before the C close
    # has begun, and CPython's close() releases the descriptor even when its flush raises.
    "interrupt": {"T.write", "T.read", "T.readline", "T.readlines", "T.next",
                  "R.write", "R.readinto"},
    "oserror_write": {"R.write"},
    "short_write": {"R.write"},
    "oserror_read": {"R.readinto"},
    "short_read": {"R.readinto"},
    "oserror_open": {"open"},
    # not a fault: the scheduler lets another client's whole operation run while this call is
    # inside an I/O call (where a thread would give up the interpreter lock)
    "yield": {"T.write", "T.read", "T.readline", "T.next", "R.write", "R.readinto"},
}
FAULT_KINDS = tuple(sorted(APPLICABLE))


class SimInterrupt(KeyboardInterrupt):
    """The injected cancellation (a KeyboardInterrupt, so `except Exception` does not eat it)."""


class IOSim:
    def __init__(self, root, chunk=8192, buf=8192):
        self.root = os.path.realpath(root)
        self.chunk = int(chunk)
        self.buf = int(buf)
        self.op_ev = 0            # events since begin_op()
        self.total_ev = 0
        self.sha = hashlib.sha256()
        self.plan = None          # {'kind':..., 'at': k [, 'errno': n]} for the current op
        self.fired = None         # (kind, event name, op_ev) once the plan fired
        self.fin_depth = 0        # >0 while a leaked handle is being finalised
        self.fin_events = 0
        self.kinds = {}           # event name -> count (whole run)
        self.frame_marks = []     # op_ev values at which a text write started with a header
        self.stack = []           # brackets of enclosing operations (an operation nested at a yield)

    # -- path ownership ---------------------------------------------------------------
    def claims(self, file):
        try:
            p = os.fspath(file)
        except TypeError:
            return None
        if isinstance(p, bytes):
            p = p.decode()
        ap = os.path.abspath(p)
        if ap == self.root or not ap.startswith(self.root + os.sep):
            rp = os.path.realpath(ap)
            if not rp.startswith(self.root + os.sep):
                return None
            ap = rp
        return ap[len(self.root) + 1:]

    # -- operation bracket --------------------------------------------------------------
    def begin_op(self, plan=None):
        self.stack.append((self.op_ev, self.sha, self.plan, self.fired, self.frame_marks))
        self.op_ev = 0
        self.sha = hashlib.sha256()
        self.plan = dict(plan) if plan else None
        self.fired = None
        self.frame_marks = []

    def end_op(self):
        """-> (events in the op, hex digest of them, fired fault or None)"""
        out = (self.op_ev, self.sha.hexdigest()[:16], self.fired)
        if self.stack:
            self.op_ev, self.sha, self.plan, self.fired, self.frame_marks = self.stack.pop()
            if not self.stack:
                self.plan = None
        else:
            self.plan = None
        return out

    # -- the one place every event goes through --------------------------------------
    def event(self, name, rel, n):
        self.op_ev += 1
        self.total_ev += 1
        self.kinds[name] = self.kinds.get(name, 0) + 1
        fin = self.fin_depth > 0
        self.sha.update(f"{name}|{rel}|{n}|{int(fin)}\n".encode())
        if fin:
            self.fin_events += 1
            return None
        pl = self.plan
        if pl is not None and self.fired is not None and pl.get("persist") and pl["kind"] == "oserror_write" \
                and name in APPLICABLE["oserror_write"]:
            # a full disk stays full: every further write of the operation fails as well (the
            # flush inside close() among them), until the operation is over
            self.sha.update(b"FAULT|oserror_write|again\n")
            self.refired = getattr(self, "refired", 0) + 1
            code = pl.get("errno", errno.ENOSPC)
            raise OSError(code, os.strerror(code) + " (simulated, persistent)")
        if pl is not None and self.fired is None and self.op_ev >= pl["at"] \
                and name in APPLICABLE[pl["kind"]]:
            kind = pl["kind"]
            self.fired = (kind, name, self.op_ev)
            self.sha.update(f"FAULT|{kind}\n".encode())
            if kind == "yield":
                pl["run"]()
                return None
            if kind == "interrupt":
                raise SimInterrupt("simulated cancellation")
            if kind == "oserror_write":
                code = pl.get("errno", errno.ENOSPC)
                raise OSError(code, os.strerror(code) + " (simulated)")
            if kind == "oserror_read":
                raise OSError(errno.EIO, os.strerror(errno.EIO) + " (simulated)")
            if kind == "oserror_open":
                code = pl.get("errno", errno.EMFILE)
                raise OSError(code, os.strerror(code) + " (simulated)")
            return "short"
        return None

    # -- open ---------------------------------------------------------------------------
    def open(self, rel, mode, buffering, encoding, errors, newline, fd=None, closefd=True):
        self.event("open", rel, mode)
        path = os.path.join(self.root, rel)
        binary = "b" in mode
        rawmode = mode.replace("b", "").replace("t", "")
        raw = SimRaw(path, rawmode) if fd is None else SimRaw(fd, rawmode, closefd=closefd)
        raw._sim = self
        raw._rel = rel
        if buffering == 0:
            if not binary:
                raise ValueError("can't have unbuffered text I/O")
            return raw
        size = self.buf if buffering in (-1, 1) else buffering
        if "+" in rawmode:
            b = SimBufRandom(raw, size)
        elif "r" in rawmode:
            b = SimBufReader(raw, size)
        else:
            b = SimBufWriter(raw, size)
        b._sim = self
        if binary:
            return b
        t = SimText(b, encoding=encoding, errors=errors, newline=newline,
                    line_buffering=(buffering == 1))
        t._sim = self
        t._rel = rel
        t._quiet = 0
        t._CHUNK_SIZE = max(1, self.chunk)
        t.mode = mode
        return t


class _FinMixin:
    def __del__(self):
        sim = getattr(self, "_sim", None)
        if sim is not None:
            sim.fin_depth += 1
        try:
            super().__del__()
        finally:
            if sim is not None:
                sim.fin_depth -= 1


class SimRaw(_FinMixin, io.FileIO):
    def write(self, b):
        act = self._sim.event("R.write", self._rel, len(b))
        if act == "short" and len(b) > 1:
            k = max(1, len(b) // 2)
            return super().write(memoryview(b)[:k])
        return super().write(b)

    def readinto(self, b):
        act = self._sim.event("R.readinto", self._rel, len(b))
        if act == "short" and len(b) > 1:
            k = max(1, len(b) // 3)
            return super().readinto(memoryview(b)[:k])
        return super().readinto(b)

    def close(self):
        if not self.closed:
            self._sim.event("R.close", self._rel, 0)
        return super().close()


class SimBufWriter(_FinMixin, io.BufferedWriter):
    pass


class SimBufReader(_FinMixin, io.BufferedReader):
    pass


class SimBufRandom(_FinMixin, io.BufferedRandom):
    pass


class SimText(_FinMixin, io.TextIOWrapper):
    def write(self, s):
        if not self._quiet:
            self._sim.event("T.write", self._rel, len(s))
        return super().write(s)

    def read(self, *a):
        if not self._quiet:
            self._sim.event("T.read", self._rel, a[0] if a and a[0] is not None else -1)
        return super().read(*a)

    def readline(self, *a):
        if not self._quiet:
            self._sim.event("T.readline", self._rel, 0)
        return super().readline(*a)

    def readlines(self, *a):
        if not self._quiet:
            self._sim.event("T.readlines", self._rel, 0)
        self._quiet += 1
        try:
            return super().readlines(*a)
        finally:
            self._quiet -= 1

    def __next__(self):
        if not self._quiet:
            self._sim.event("T.next", self._rel, 0)
        return super().__next__()

    def close(self):
        if not self.closed and not self._quiet:
            self._sim.event("T.close", self._rel, 0)
        return super().close()
