"""Environment pinning, repo import path and the declared environment shims.

Must be imported before anything from the repository (and before numpy spins up BLAS
threads).  Nothing here touches a file of the repository.
"""
import os
import sys

for _k in ("OPENBLAS_NUM_THREADS", "OMP_NUM_THREADS", "MKL_NUM_THREADS", "NUMEXPR_NUM_THREADS"):
    os.environ[_k] = "1"

VERIF_ROOT = os.path.dirname(os.path.dirname(os.path.abspath(__file__)))
REPO_ROOT = os.path.abspath(os.environ.get("VERIF_REPO", "/repo"))
GUARD = "PYMATTERSIM_VERIF"          # named for MANIFEST.hooks; no repo source reads it
os.environ.setdefault(GUARD, "1")

if sys.path[0] != REPO_ROOT:
    sys.path.insert(0, REPO_ROOT)
if VERIF_ROOT not in sys.path:
    sys.path.insert(1, VERIF_ROOT)

SHIMS = []


def install_shims():
    """Shims that let entry points of the pinned repo import on the pinned environment.

    They replace library functions that newer scipy / numpy removed by their documented
    successors; evidence lists them under 'stubbed_components'.
    """
    import numpy as np
    import scipy.special as sp
    if not hasattr(sp, "sph_harm") and hasattr(sp, "sph_harm_y"):
        def sph_harm(m, n, theta, phi):
            # old signature: order m, degree n, azimuth theta, polar phi
            return sp.sph_harm_y(n, m, phi, theta)
        sp.sph_harm = sph_harm
        SHIMS.append("scipy.special.sph_harm -> sph_harm_y (argument order adapted)")
    if not hasattr(np, "trapz") and hasattr(np, "trapezoid"):
        np.trapz = np.trapezoid
        SHIMS.append("numpy.trapz -> numpy.trapezoid")


def import_repo():
    """Import the repository package from REPO_ROOT and make sure that is what we got."""
    install_shims()
    import logging
    import warnings
    warnings.filterwarnings("ignore")   # numerical RuntimeWarnings of the library are not verdicts
    logging.disable(logging.CRITICAL)     # the library logs through module loggers only
    import PyMatterSim
    got = os.path.dirname(os.path.dirname(os.path.abspath(PyMatterSim.__file__)))
    if os.path.realpath(got) != os.path.realpath(REPO_ROOT):
        raise RuntimeError(f"HARNESS-ERROR imported PyMatterSim from {got}, wanted {REPO_ROOT}")
    # import every module of the package now (module-level code only, nothing is called), so
    # that run children forked from this process do not each pay for the imports
    import importlib
    import pkgutil
    for m in pkgutil.walk_packages(PyMatterSim.__path__, "PyMatterSim."):
        if not m.ispkg:
            try:
                importlib.import_module(m.name)
            except Exception:  # noqa: BLE001 - reported by the worlds that need the module
                pass
    try:
        import freud
        freud.parallel.set_num_threads(1)
    except Exception:  # freud is only needed by C20 / C18; those worlds check again
        pass
    # stand-ins for the peers that are absent on this image (declared as stubs in the evidence)
    from . import peers
    try:
        peers.install_hoomd()
        peers.install_voro()
    except Exception as e:  # noqa: BLE001 - the worlds that need a peer report its absence
        SHIMS.append(f"peer stubs not installed: {type(e).__name__}: {e}")
    for s in peers.STUBS:
        if s not in SHIMS:
            SHIMS.append(s)
    return PyMatterSim


def ensure_hashseed():
    """Re-exec once with PYTHONHASHSEED pinned (0 unless the caller chose one)."""
    if os.environ.get("PYTHONHASHSEED") is None:
        os.environ["PYTHONHASHSEED"] = "0"
        os.execv(sys.executable, [sys.executable] + sys.argv)
