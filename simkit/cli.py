"""check entry point: batches of seeded runs, determinism self-test, minimisation, replay,
known findings, evidence."""
import argparse
import concurrent.futures as cf
import json
import multiprocessing as mp
import os
import re
import subprocess
import sys
import time

from . import compat

TIERS = {
    # property -> tier -> plan
    "C05": {"quick": dict(faultfree=4000, fault=4000, wall=100, selftest=24),
            "thorough": dict(faultfree=120000, fault=120000, wall=900, selftest=200)},
    "C19": {"quick": dict(faultfree=4000, fault=2500, wall=100, selftest=24),
            "thorough": dict(faultfree=100000, fault=60000, wall=900, selftest=200)},
    "C20": {"quick": dict(faultfree=1500, fault=1500, wall=80, selftest=24),
            "thorough": dict(faultfree=50000, fault=50000, wall=900, selftest=200)},
    "C18": {"quick": dict(faultfree=1300, fault=900, wall=150, selftest=16),
            "thorough": dict(faultfree=50000, fault=25000, wall=1200, selftest=120)},
}
CHUNK = 6


def say(msg):
    print(msg, flush=True)


def seed_for(base, prop, batch, k):
    from .engine import subseed
    return subseed(base, prop, batch, k) % (1 << 48)


def _chunk_worker(args):
    from .engine import HarnessError, run_one
    prop, items, want_ops_first = args
    out = []
    for (seed, batch, want) in items:
        try:
            out.append(run_one(prop, seed, batch, want_ops=want))
        except HarnessError as e:
            out.append({"seed": seed, "batch": batch, "harness_error": str(e)[:1500]})
    return out


def run_batches(prop, base_seed, plan, workers, deadline, sample_every=None):
    """-> list of run results (order of completion is irrelevant: results are keyed by seed)"""
    items = []
    for batch in ("faultfree", "fault"):
        n = plan.get(batch, 0)
        for k in range(n):
            items.append((seed_for(base_seed, prop, batch, k), batch, k < 2))
    # interleave the two batches so that a wall-clock cut keeps both represented
    ff = [it for it in items if it[1] == "faultfree"]
    fl = [it for it in items if it[1] == "fault"]
    mixed = []
    for i in range(max(len(ff), len(fl))):
        if i < len(ff):
            mixed.append(ff[i])
        if i < len(fl):
            mixed.append(fl[i])
    chunks = [mixed[i:i + CHUNK] for i in range(0, len(mixed), CHUNK)]
    results = []
    ctx = mp.get_context("fork")
    cut = False
    with cf.ProcessPoolExecutor(max_workers=workers, mp_context=ctx) as ex:
        pending = set()
        it = iter(chunks)
        try:
            for _ in range(workers * 2):
                pending.add(ex.submit(_chunk_worker, (prop, next(it), False)))
        except StopIteration:
            pass
        while pending:
            done, pending = cf.wait(pending, timeout=5.0, return_when=cf.FIRST_COMPLETED)
            for fut in done:
                results.extend(fut.result())
                if time.monotonic() < deadline:
                    try:
                        pending.add(ex.submit(_chunk_worker, (prop, next(it), False)))
                    except StopIteration:
                        pass
                else:
                    cut = True
    return results, cut


# ---------------------------------------------------------------- determinism self-test

def fingerprints(prop, base_seed, n, workers):
    from .engine import run_one  # noqa: F401
    items = []
    for k in range(n):
        batch = "fault" if k % 2 else "faultfree"
        items.append((seed_for(base_seed, prop, "selftest-" + batch, k), batch, False))
    chunks = [items[i:i + 4] for i in range(0, len(items), 4)]
    out = {}
    ctx = mp.get_context("fork")
    with cf.ProcessPoolExecutor(max_workers=workers, mp_context=ctx) as ex:
        for res in ex.map(_chunk_worker, [(prop, c, False) for c in chunks]):
            for r in res:
                if "harness_error" in r:
                    out[str(r["seed"])] = "HARNESS-ERROR " + r["harness_error"][:200]
                else:
                    v = r.get("violation")
                    out[str(r["seed"])] = r["fingerprint"] + ("|" + v["signature"] if v else "")
    return out


def selftest(prop, base_seed, n, workers, matrix=False):
    """Same seeds, twice: here, and in fresh interpreters under another hash seed and
    another worker count.  -> (ok, detail dict)"""
    a = fingerprints(prop, base_seed, n, workers)
    variants = [("4242", max(2, workers // 3))]
    if matrix:
        variants += [("0", workers), ("977", 5)]
    detail = {"seeds": n, "executions": 1, "hashseeds": ["0"], "worker_counts": [workers], "divergent": []}
    for hs, w in variants:
        env = dict(os.environ, PYTHONHASHSEED=hs)
        cmd = [sys.executable, os.path.join(compat.VERIF_ROOT, "check"), "fingerprints", prop,
               "--seed", str(base_seed), "--runs", str(n), "--workers", str(w)]
        p = subprocess.run(cmd, env=env, capture_output=True, text=True, timeout=1800)
        if p.returncode != 0:
            return False, {"error": f"fingerprint subprocess failed rc={p.returncode}: {p.stderr[-800:]}"}
        b = json.loads(p.stdout.strip().splitlines()[-1])
        detail["executions"] += 1
        detail["hashseeds"].append(hs)
        detail["worker_counts"].append(w)
        for s in a:
            if a[s] != b.get(s):
                detail["divergent"].append(s)
    errs = [s for s, v in a.items() if v.startswith("HARNESS-ERROR")]
    detail["harness_errors"] = errs[:5]
    return (not detail["divergent"] and not errs), detail


# ------------------------------------------------------------------------ known findings

def load_known(prop):
    path = os.path.join(compat.VERIF_ROOT, "known_findings.json")
    if not os.path.exists(path):
        return []
    with open(path) as f:
        data = json.load(f)
    return [k for k in data.get("findings", []) if k.get("property") == prop]


def match_known(known, signature):
    for k in known:
        if k.get("status") == "known" and re.fullmatch(k["signature"], signature):
            return k
    return None


# ----------------------------------------------------------------------------- replay

def write_replay(prop, res, tier):
    from .engine import run_one
    rdir = os.environ.get("VERIF_REPLAY_DIR") or os.path.join(compat.VERIF_ROOT, "replays")
    os.makedirs(rdir, exist_ok=True)
    final = run_one(prop, res["seed"], res["batch"], replay={"swarm": res["swarm"], "ops": res["ops"]},
                    want_ops=True)
    if not final.get("violation") or final["violation"]["signature"] != res["violation"]["signature"]:
        return None
    doc = {
        "format": 1, "property": prop, "seed": res["seed"], "tier": tier, "batch": res["batch"],
        "swarm": final["swarm"], "ops": final["ops"], "violation": final["violation"],
        "fingerprint": final["fingerprint"],
        "original_ops": res.get("original_nops"), "shrink_candidates": res.get("shrink_candidates"),
        "repo": repo_state(), "log": final.get("log", [])[-60:],
    }
    path = os.path.join(rdir, f"{prop}-{res['seed']}.json")
    with open(path, "w") as f:
        json.dump(doc, f, indent=1)
    return path


def repo_state():
    try:
        head = subprocess.run(["git", "-C", compat.REPO_ROOT, "rev-parse", "HEAD"], capture_output=True, text=True).stdout.strip()
        diff = subprocess.run(["git", "-C", compat.REPO_ROOT, "diff", "HEAD", "--stat"], capture_output=True, text=True).stdout.strip()
        return {"head": head, "dirty": bool(diff), "root": compat.REPO_ROOT}
    except Exception:
        return {"root": compat.REPO_ROOT}


def do_replay(path):
    from .engine import HarnessError, run_one
    with open(path) as f:
        doc = json.load(f)
    prop = doc["property"]
    try:
        r = run_one(prop, doc["seed"], doc["batch"], replay={"swarm": doc["swarm"], "ops": doc["ops"]}, want_ops=True)
    except HarnessError as e:
        say(f"HARNESS-ERROR replay {e}")
        return 2
    v = r.get("violation")
    for ln in r.get("log", [])[-40:]:
        say("  " + ln)
    if v and v["signature"] == doc["violation"]["signature"]:
        same = r["fingerprint"] == doc["fingerprint"]
        say(f"REPRODUCED signature={v['signature']} fingerprint_match={same}")
        say(f"  detail: {v['detail']}")
        say(f"VIOLATION property={prop} replay={path}")
        return 1 if same else 3
    say(f"NOT-REPRODUCED recorded={doc['violation']['signature']} now={v['signature'] if v else None}")
    return 0


# ------------------------------------------------------------------------------ check

def do_check(prop, tier, base_seed, workers, runs=None, wall=None, no_selftest=False):
    from .engine import load_world
    from .shrink import shrink
    t0 = time.monotonic()
    os.environ["VERIF_TIER"] = tier
    compat.import_repo()
    World = load_world(prop)
    plan = dict(TIERS[prop][tier])
    if runs is not None:
        tot = plan["faultfree"] + plan["fault"]
        plan["faultfree"] = max(1, runs * plan["faultfree"] // tot)
        plan["fault"] = max(1, runs * plan["fault"] // tot)
    if wall is not None:
        plan["wall"] = wall
    say(f"check {prop} tier={tier} VERIF_SEED={base_seed} workers={workers} repo={compat.REPO_ROOT} plan={plan}")
    pre = getattr(World, "preflight", None)
    if pre is not None:
        pre()

    # 1. determinism first: no verdict is believed without it
    st_detail = {"skipped": True}
    if not no_selftest:
        ok, st_detail = selftest(prop, base_seed, plan["selftest"], workers, matrix=(tier == "thorough"))
        say(f"selftest: {json.dumps(st_detail)[:400]}")
        if not ok:
            say(f"HARNESS-ERROR nondeterministic or failing self-test for {prop}: {json.dumps(st_detail)[:600]}")
            return 2

    # 2. the seeded search
    deadline = time.monotonic() + plan["wall"]
    results, cut = run_batches(prop, base_seed, plan, workers, deadline)
    wall_search = time.monotonic() - t0
    herr = [r for r in results if "harness_error" in r]
    good = [r for r in results if "harness_error" not in r]
    if herr:
        say(f"HARNESS-ERROR {len(herr)} runs failed in the harness, first: seed={herr[0]['seed']} {herr[0]['harness_error'][:1200]}")
        if len(herr) > max(3, len(results) // 100):
            return 2
    if not good:
        say("HARNESS-ERROR no run completed")
        return 2

    # 3. violations: group by signature, minimise, replay, classify
    known = load_known(prop)
    by_sig = {}
    for r in good:
        if r.get("violation"):
            by_sig.setdefault(r["violation"]["signature"], []).append(r)
    reported = []
    known_seen = {}
    exit_code = 0
    for sig in sorted(by_sig):
        k = match_known(known, sig)
        runs_sig = sorted(by_sig[sig], key=lambda r: (r["nops"], r["seed"]))
        if k is not None:
            known_seen[sig] = len(runs_sig)
            say(f"KNOWN-FINDING: property={prop} {k['what']} [signature {sig}, {len(runs_sig)} runs]")
            continue
        if len(reported) >= 4:
            say(f"(further signature {sig}: {len(runs_sig)} runs, not minimised)")
            continue
        first = runs_sig[0]
        say(f"violation candidate {sig}: {len(runs_sig)} runs; minimising seed={first['seed']} ({first['nops']} ops)")
        small = shrink(prop, first, budget_s=45.0 if tier == "quick" else 180.0, log=say)
        if small is None:
            say(f"HARNESS-ERROR violation {sig} of seed {first['seed']} does not replay")
            exit_code = max(exit_code, 2)
            continue
        path = write_replay(prop, small, tier)
        if path is None:
            say(f"HARNESS-ERROR minimised violation {sig} did not replay when written")
            exit_code = max(exit_code, 2)
            continue
        # fresh-process replay must reproduce signature and fingerprint
        p = subprocess.run([sys.executable, os.path.join(compat.VERIF_ROOT, "check"), "--replay", path],
                           capture_output=True, text=True, timeout=600,
                           env=dict(os.environ, PYTHONHASHSEED="31337"))
        if p.returncode == 3:
            # same violation signature in a fresh process, another event-log fingerprint: the
            # defect itself is not a function of the operations alone (stale data picked by
            # object address, say).  It is a violation that replays; the log says what differs
            say(f"  note: replay of {path} in a fresh process reproduces the violation signature; the event log differs "
                f"between processes (the faulty behaviour depends on process state such as object addresses)")
        elif p.returncode != 1:
            say(f"HARNESS-ERROR replay of {path} in a fresh process returned {p.returncode}: {p.stdout[-600:]}")
            exit_code = max(exit_code, 2)
            continue
        say(f"  {small['violation']['signature']}: {small['violation']['detail'][:700]}")
        say(f"  minimised to {len(small['ops'])} ops: " + json.dumps([_brief(o) for o in small["ops"]])[:1200])
        say(f"VIOLATION property={prop} replay={path}")
        reported.append({"signature": sig, "replay": path, "runs": len(runs_sig)})
        exit_code = max(exit_code, 1)

    # 4. evidence
    write_evidence(prop, tier, base_seed, good, herr, plan, cut, st_detail, reported, known_seen,
                   time.monotonic() - t0, wall_search, World)
    n_v = sum(len(v) for s, v in by_sig.items() if s not in known_seen)
    say(f"done {prop}: runs={len(good)} violations={n_v} known={sum(known_seen.values())} "
        f"wall={time.monotonic() - t0:.1f}s exit={exit_code}")
    return exit_code


def _brief(op):
    o = {k: v for k, v in op.items() if k not in ("recipe", "arrays")}
    if "recipe" in op:
        o["recipe"] = {k: op["recipe"][k] for k in op["recipe"] if k not in ("subseed",)}
    return o


def _merge(dst, src):
    for k, v in src.items():
        dst[k] = dst.get(k, 0) + v


def write_evidence(prop, tier, base_seed, good, herr, plan, cut, st_detail, reported, known_seen,
                   wall, wall_search, World):
    probes, faults, opsx, iok = {}, {}, {}, {}
    states, isigs = set(), set()
    events = fin = configured = 0
    per_batch = {}
    for r in good:
        _merge(probes, r["probes"])
        _merge(faults, r["faults_fired"])
        _merge(opsx, r["ops_executed"])
        _merge(iok, r["io_kinds"])
        states.update(r["states"])
        events += r["events"]
        fin += r["fin_events"]
        configured += r["faults_configured"]
        b = per_batch.setdefault(r["batch"], {"runs": 0, "ops": 0, "violations": 0})
        b["runs"] += 1
        b["ops"] += r["nops"]
        b["violations"] += 1 if r.get("violation") else 0
        if r["nontrivial"]:
            isigs.add(r["isig"])
    samples = []
    for r in good:
        if "ops" in r and not r.get("violation") and len(samples) < 3:
            samples.append({"seed": r["seed"], "batch": r["batch"], "swarm": r["swarm"],
                            "ops": [_brief(o) for o in r["ops"]][:40], "fingerprint": r["fingerprint"]})
    if not samples:
        samples.append({"seed": good[0]["seed"], "batch": good[0]["batch"], "swarm": good[0]["swarm"]})
    n = len(good)
    comp = World.components() if hasattr(World, "components") else {}
    ev = {
        "property_id": prop, "tier": tier, "seed": int(base_seed), "level": "exploration",
        "coverage": {
            "evaluations": n,
            "distinct_nontrivial": len(isigs),
            "rule": ("one evaluation = one seeded simulated run (one world, one schedule of client operations "
                     "and fault placements, all drawn from one PRNG). distinct_nontrivial counts distinct "
                     "interleaving signatures (sequence of operation kinds, the files/handles/objects they touch, "
                     "fault kind and position) among runs in which at least three operations touched shared "
                     "state (files, handles, pooled objects)."),
            "samples": samples,
            "runs_per_batch": per_batch,
            "runs_per_hour": int(n / max(wall_search, 1e-9) * 3600),
            "seeds": {"base": int(base_seed), "derivation": "sha256(VERIF_SEED, property, batch, k)", "count": n},
            "simulated_time": {"io_events": events, "operations": sum(r["nops"] for r in good),
                               "note": "logical time only: the library has no timers; time = global I/O event sequence"},
            "faults_fired": faults, "faults_configured": configured,
            "finaliser_events": fin, "io_event_kinds": iok,
            "ops_executed": opsx, "probes": probes,
            "distinct_states": len(states),
            "state_measure": "hash of (files with kind/generation/acknowledged, handles with cursor/staleness, held exceptions / pooled objects) after each operation",
            "wall_cut": bool(cut), "planned": {k: plan[k] for k in ("faultfree", "fault")},
            "determinism_selftest": st_detail,
            "harness_errors": len(herr),
            "violations_reported": reported, "known_findings_seen": known_seen,
            "real_components": comp.get("real", []), "stubbed_components": comp.get("stubbed", []) + compat.SHIMS,
            "not_reached": comp.get("not_reached", []),
        },
        "assumptions": [
            "CPython io stack and finaliser semantics, tmpfs",
            "the reference models in /verif/worlds (brute-force neighbour model, protocol models)",
            "a clean batch is evidence, not proof: schedules and fault placements are sampled",
        ],
        "wall_s": round(wall, 2),
        "violations": len(reported),
    }
    evdir = os.environ.get("VERIF_EVIDENCE_DIR") or os.path.join(compat.VERIF_ROOT, "evidence")
    os.makedirs(evdir, exist_ok=True)
    path = os.path.join(evdir, f"{prop}.json")
    with open(path, "w") as f:
        json.dump(ev, f, indent=1, sort_keys=False)


def main(argv=None):
    ap = argparse.ArgumentParser(prog="check")
    ap.add_argument("what", nargs="?", help="property id, or 'fingerprints' / 'selftest'")
    ap.add_argument("prop", nargs="?")
    ap.add_argument("--tier", default=os.environ.get("VERIF_TIER", "quick"), choices=["quick", "thorough"])
    ap.add_argument("--seed", type=int, default=None)
    ap.add_argument("--runs", type=int, default=None)
    ap.add_argument("--wall", type=float, default=None)
    ap.add_argument("--workers", type=int, default=min(16, os.cpu_count() or 4))
    ap.add_argument("--replay")
    ap.add_argument("--one", type=int, help="run a single seed verbosely")
    ap.add_argument("--batch", default="faultfree")
    ap.add_argument("--no-selftest", action="store_true")
    a = ap.parse_args(argv)
    seed = a.seed if a.seed is not None else int(os.environ.get("VERIF_SEED", "20260929") or 0)
    if a.replay:
        compat.import_repo()
        return do_replay(a.replay)
    if a.what == "setup":
        compat.import_repo()
        import freud  # noqa: F401
        from .engine import load_world
        for pr in sorted(TIERS):
            try:
                load_world(pr)
            except ModuleNotFoundError as e:
                say(f"setup: world {pr} not built yet ({e})")
        say("setup ok: repo importable from " + compat.REPO_ROOT + "; shims: " + "; ".join(compat.SHIMS))
        return 0
    if a.what == "fingerprints":
        compat.import_repo()
        print(json.dumps(fingerprints(a.prop, seed, a.runs or 24, a.workers), sort_keys=True))
        return 0
    if a.what == "selftest":
        compat.import_repo()
        ok, d = selftest(a.prop, seed, a.runs or 200, a.workers, matrix=True)
        say(json.dumps(d))
        return 0 if ok else 2
    if a.one is not None:
        compat.import_repo()
        from .engine import run_one
        r = run_one(a.what, a.one, a.batch, want_ops=True)
        for ln in r.get("log", []):
            say(ln)
        say(json.dumps({k: r[k] for k in r if k not in ("ops", "log", "states")}, indent=1))
        return 1 if r.get("violation") else 0
    if a.what in TIERS:
        return do_check(a.what, a.tier, seed, a.workers, a.runs, a.wall, a.no_selftest)
    ap.error("nothing to do")
    return 2
