"""One run = one seed = one world = one exactly repeatable execution.

`run_one` executes inside a freshly forked child of a process that has imported the
repository but never called into it, so every run starts from pristine process state.
"""
import gc
import glob
import hashlib
import importlib
import json
import os
import pickle
import random
import select
import shutil
import signal
import struct
import sys
import tempfile
import time as _realtime
import traceback

from . import simio

WORLDS = {"C05": "worlds.c05", "C18": "worlds.c18", "C19": "worlds.c19", "C20": "worlds.c20"}
SHM = "/dev/shm" if os.path.isdir("/dev/shm") and os.access("/dev/shm", os.W_OK) else tempfile.gettempdir()


class Violation(Exception):
    def __init__(self, signature, detail=""):
        super().__init__(f"{signature}: {detail}")
        self.signature = signature
        self.detail = detail


class HarnessError(Exception):
    pass


class Refuse(Exception):
    """An operation whose precondition does not hold (only ever raised on replay of a
    shrunk candidate); the operation is skipped."""


def h64(*parts):
    m = hashlib.sha256()
    for p in parts:
        m.update(p if isinstance(p, bytes) else str(p).encode())
        m.update(b"\x00")
    return m.hexdigest()[:16]


def subseed(seed, *tags):
    return int(h64(seed, *tags), 16)


def canon(obj, m=None):
    """Canonical bytes digest of nested results (arrays, DataFrames, scalars, containers)."""
    import numpy as np
    import pandas as pd
    top = m is None
    if top:
        m = hashlib.sha256()
    if obj is None:
        m.update(b"N")
    elif isinstance(obj, np.ndarray):
        a = np.ascontiguousarray(obj)
        m.update(f"A{a.dtype.str}{a.shape}".encode())
        if a.dtype == object:
            for x in a.ravel():
                canon(x, m)
        else:
            m.update(a.tobytes())
    elif isinstance(obj, pd.DataFrame):
        m.update(b"DF")
        canon([str(c) for c in obj.columns], m)
        canon(np.asarray(obj.index), m)
        for c in obj.columns:
            canon(obj[c].to_numpy(), m)
    elif isinstance(obj, pd.Series):
        m.update(b"SR")
        canon(str(obj.name), m)
        canon(np.asarray(obj.index), m)
        canon(obj.to_numpy(), m)
    elif isinstance(obj, (bool, np.bool_)):
        m.update(b"b1" if obj else b"b0")
    elif isinstance(obj, (int, np.integer)):
        m.update(f"i{int(obj)}".encode())
    elif isinstance(obj, (float, np.floating)):
        m.update(b"f" + struct.pack("<d", float(obj)))
    elif isinstance(obj, (complex, np.complexfloating)):
        m.update(b"c" + struct.pack("<dd", complex(obj).real, complex(obj).imag))
    elif isinstance(obj, str):
        m.update(b"s" + obj.encode())
    elif isinstance(obj, bytes):
        m.update(b"y" + obj)
    elif isinstance(obj, (list, tuple)):
        m.update(f"L{len(obj)}".encode())
        for x in obj:
            canon(x, m)
    elif isinstance(obj, dict):
        m.update(f"D{len(obj)}".encode())
        for k in sorted(obj, key=repr):
            canon(repr(k), m)
            canon(obj[k], m)
    else:
        m.update(("O" + type(obj).__name__).encode())
    if top:
        return m.hexdigest()[:16]
    return None


class Ctx:
    """Everything a world needs from the engine during one run."""

    def __init__(self, seed, batch, root, io, replica=False):
        self.seed = seed
        self.batch = batch
        self.root = root
        self.io = io
        self.rng = random.Random(seed)
        self.replica = replica
        self.lines = []
        self.probes = {}
        self.faults_fired = {}
        self.faults_configured = 0
        self.ops_executed = {}
        self.states = set()
        self.step = 0

    def log(self, text):
        self.lines.append(f"{self.step}|{text}")

    def probe(self, name, n=1):
        self.probes[name] = self.probes.get(name, 0) + n

    def fingerprint(self):
        m = hashlib.sha256()
        for ln in self.lines:
            m.update(ln.encode())
            m.update(b"\n")
        return m.hexdigest()


def load_world(prop):
    mod = importlib.import_module(WORLDS[prop])
    return mod.World


def _execute(prop, seed, batch, replay, want_ops, root, journal=None):
    """Runs in the forked child.  Returns a JSON-able result dict."""
    gc.disable()
    World = load_world(prop)
    gc.freeze()          # everything imported so far is permanent: gc.collect() at step boundaries stays cheap
    cwd0 = os.getcwd()
    os.chdir(root)
    rng_swarm = random.Random(subseed(seed, "swarm"))
    if replay is not None:
        swarm = replay["swarm"]
    else:
        swarm = World.make_swarm(rng_swarm, batch)
    io = simio.IOSim(root, chunk=swarm.get("chunk", 8192), buf=swarm.get("buf", 8192))
    ctx = Ctx(seed, batch, root, io)
    simio.ACTIVE = io
    ctx.lines.append(f"seed={seed} prop={prop} batch={batch} swarm={json.dumps(swarm, sort_keys=True)}")
    world = World(ctx, swarm)
    jf = None
    if journal is not None:
        jf = simio.real_open(journal, "w")
        jf.write(json.dumps({"swarm": swarm, "root": root}) + "\n")
        jf.flush()
    ops = []
    violation = None
    skipped = 0
    acked = 0
    try:
        nops = swarm["nops"] if replay is None else len(replay["ops"])
        for step in range(nops):
            ctx.step = step
            if replay is None:
                op = world.gen(ctx.rng)
                if op is None:
                    break
            else:
                op = replay["ops"][step]
            if jf is not None:
                jf.write(json.dumps(op) + "\n")
                jf.flush()
            try:
                digest = world.apply(op)
                world.invariants()
            except Refuse as r:
                if replay is None:
                    raise HarnessError(f"generator produced a refused op {op}: {r}")
                skipped += 1
                ctx.log(f"skip {op['op']}")
                continue
            except Violation as v:
                ops.append(op)
                ctx.log(f"op {op['op']} VIOLATION {v.signature}")
                violation = {"signature": v.signature, "detail": v.detail[:2000], "step": step}
                break
            ops.append(op)
            acked += 1
            ctx.ops_executed[op["op"]] = ctx.ops_executed.get(op["op"], 0) + 1
            ctx.log(f"op {op['op']} {digest}")
            ctx.states.add(h64(world.state_sig()))
        if violation is None:
            try:
                ctx.step = len(ops)
                world.finish()
            except Violation as v:
                ctx.log(f"finish VIOLATION {v.signature}")
                violation = {"signature": v.signature, "detail": v.detail[:2000], "step": len(ops)}
    finally:
        simio.ACTIVE = None
        try:
            world.teardown()
        except Exception:
            pass
        os.chdir(cwd0)
    res = {
        "seed": seed, "batch": batch, "swarm": swarm, "nops": len(ops), "acked": acked,
        "skipped": skipped, "violation": violation, "fingerprint": ctx.fingerprint(),
        "events": io.total_ev, "fin_events": io.fin_events, "io_kinds": io.kinds,
        "probes": ctx.probes, "faults_fired": ctx.faults_fired,
        "faults_configured": ctx.faults_configured, "ops_executed": ctx.ops_executed,
        "states": sorted(ctx.states), "isig": h64(world.interleaving_sig(ops)),
        "nontrivial": world.nontrivial(ops),
    }
    if want_ops or violation:
        res["ops"] = ops
    if want_ops:
        res["log"] = ctx.lines[:400]
    return res


def forked(fn, timeout=120.0):
    """Run fn() in a forked child; return its (pickled) result.  A child that dies or
    exceeds the wall limit is a HarnessError, never a result."""
    r, w = os.pipe()
    sys.stdout.flush()
    sys.stderr.flush()
    pid = os.fork()
    if pid == 0:
        code = 0
        try:
            os.close(r)
            try:
                out = ("ok", fn())
            except BaseException as e:  # noqa: BLE001 - the parent classifies
                out = ("err", f"{type(e).__name__}: {e}\n{traceback.format_exc()[-3000:]}")
            data = pickle.dumps(out, protocol=4)
            with os.fdopen(w, "wb", closefd=True) as f:
                f.write(struct.pack("<Q", len(data)))
                f.write(data)
        except BaseException:
            code = 3
        finally:
            os._exit(code)
    os.close(w)
    deadline = _realtime.monotonic() + timeout
    chunks = []
    try:
        while True:
            left = deadline - _realtime.monotonic()
            if left <= 0:
                os.kill(pid, signal.SIGKILL)
                os.waitpid(pid, 0)
                raise HarnessError(f"child exceeded {timeout}s wall limit")
            ready, _, _ = select.select([r], [], [], min(left, 5.0))
            if not ready:
                continue
            b = os.read(r, 1 << 20)
            if not b:
                break
            chunks.append(b)
    finally:
        os.close(r)
    _, status = os.waitpid(pid, 0)
    data = b"".join(chunks)
    if len(data) < 8:
        raise HarnessError(f"child died without a result (status {status})")
    (n,) = struct.unpack("<Q", data[:8])
    if len(data) - 8 != n:
        raise HarnessError("child result truncated")
    tag, val = pickle.loads(data[8:])
    if tag == "err":
        raise HarnessError("child raised: " + val)
    return val


RUN_TIMEOUT = {"C20": 480.0, "C18": 300.0}     # wall limit per run (rare large systems / traced sweeps under load)


def run_one(prop, seed, batch, replay=None, want_ops=False, timeout=None):
    """Execute one run in a forked child and return its result dict.

    A child killed by a signal while executing repository (or peer) code is not a harness
    error: the run is repeated with an operation journal, and the crash is reported as a
    violation at the operation that was executing."""
    if timeout is None:
        timeout = RUN_TIMEOUT.get(prop, 180.0)
    root = tempfile.mkdtemp(prefix="pmsim-", dir=SHM)
    fd, jpath = tempfile.mkstemp(prefix="pmsim-journal-", dir=SHM)
    os.close(fd)
    try:
        try:
            return forked(lambda: _execute(prop, seed, batch, replay, want_ops, root), timeout=timeout)
        except HarnessError as e:
            if not str(e).startswith("child died without a result"):
                raise
        shutil.rmtree(root, ignore_errors=True)
        os.makedirs(root)
        try:
            return forked(lambda: _execute(prop, seed, batch, replay, want_ops, root, journal=jpath), timeout=timeout)
        except HarnessError as e2:
            if not str(e2).startswith("child died without a result"):
                raise
            status = str(e2)
        with simio.real_open(jpath) as f:
            lines = f.read().splitlines()
    finally:
        for d in glob.glob(root + "*"):
            shutil.rmtree(d, ignore_errors=True)
        try:
            os.unlink(jpath)
        except OSError:
            pass
    if not lines:
        raise HarnessError("run child crashed before the world was built: " + status)
    head = json.loads(lines[0])
    ops = [json.loads(ln) for ln in lines[1:]]
    last = ops[-1]["op"] if ops else "none"
    sig = f"{prop}/process-crashed:{last}"
    return {
        "seed": seed, "batch": batch, "swarm": head["swarm"], "nops": len(ops), "acked": max(0, len(ops) - 1),
        "skipped": 0, "ops": ops,
        "violation": {"signature": sig, "detail": f"the interpreter died inside operation {len(ops) - 1} ({last}): {status}", "step": len(ops) - 1},
        "fingerprint": h64("crash", json.dumps(ops, sort_keys=True)),
        "events": 0, "fin_events": 0, "io_kinds": {}, "probes": {"process_crashed": 1}, "faults_fired": {},
        "faults_configured": 0, "ops_executed": {}, "states": [], "isig": h64(json.dumps(ops, sort_keys=True)),
        "nontrivial": False, "log": [f"crash in {last}: {status}"],
    }
