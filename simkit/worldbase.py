"""Shared machinery of the worlds: faulted calls, held exceptions (finaliser timing),
dry-run event counting, acknowledged-file bookkeeping."""
import dis
import gc
import hashlib
import os
import shutil
import sys
import tempfile

from . import simio
from .engine import SHM, HarnessError, Violation, forked, h64

LIB_ROOT = os.path.join(os.path.abspath(os.environ.get("VERIF_REPO", "/repo")), "PyMatterSim") + os.sep


LINE_FAULTS = ("interrupt_line", "alloc_line")

# ---------------------------------------------------------------------------------------
# Where a cancellation can land.  CPython runs signal handlers (and so raises KeyboardInterrupt)
# only where the interpreter polls its "eval breaker": at the start of a Python function
# (RESUME), at a backward jump (JUMP_BACKWARD) and right after a call into C returns (CALL,
# CALL_FUNCTION_EX).  It does NOT poll between the last instruction of a `with` / `try` body and
# the call of `__exit__` / the first call of the `finally` block - which is exactly why
# `with open(...)` is cancellation-safe.  A cancellation raised at an arbitrary *line* start
# (the first version of this fault kind) can land in that gap and made a correct `with` block
# look like a leaked handle (false alarm C05/ack-file-changed, found on a seeded change that
# merely shifted the line numbers).  So the line number only chooses *when to arm*; the
# exception is then delivered at the first instant after it at which CPython itself could
# deliver one (sys.monitoring events PY_START / PY_RESUME, JUMP backwards, C_RETURN).
_MON = sys.monitoring
_TOOL = 3
_EXTENDED_ARG = dis.opmap["EXTENDED_ARG"]


def line_tracer(limit, alloc=False):
    """sys.settrace hook: counts 'line' events inside the library's own source files.  When
    limit > 0 the limit-th one arms the fault: from the interpreter's next poll point on, the
    poll points themselves are watched (sys.monitoring: start / resumption of a Python
    function, backward jump, return from a call into C) and the simulated cancellation (or,
    with alloc=True, a failed allocation: MemoryError - an `except Exception` that lets a
    cancellation pass does catch this one) is raised at the first of them inside library code,
    attributed to the polling instruction as CPython would.  -> (global trace function, state);
    state["disarm"]() must be called when the operation is over."""
    state = {"n": 0, "fired": False, "armed": False}

    def boom():
        state["fired"] = True
        disarm()
        if alloc:
            raise MemoryError("simulated allocation failure")
        raise simio.SimInterrupt("simulated cancellation at an interpreter poll point")

    def on_start(code, off):
        if state["armed"] and code.co_filename.startswith(LIB_ROOT):
            boom()

    def on_c_return(code, off, callable_, arg0):
        if state["armed"] and code.co_filename.startswith(LIB_ROOT):
            boom()

    def on_jump(code, off, dest):
        # an exception raised from a JUMP callback skips the handlers of the frame (CPython
        # 3.12.1), so the backward jump only marks its destination: the interpreter polls right
        # after this event, which also switches the single-instruction events on, and the
        # exception is raised at the loop head it then executes
        if state["armed"] and dest < off and code.co_filename.startswith(LIB_ROOT) and "want" not in state:
            state["want"] = (code, dest)
            _MON.set_local_events(_TOOL, code, _MON.events.INSTRUCTION)

    def on_instr(code, off):
        w = state.get("want")
        if state["armed"] and w is not None and w[0] is code:
            if off == w[1] or (code.co_code[w[1]] == _EXTENDED_ARG and off == w[1] + 2):
                boom()
            # not where the jump went (cannot happen): give up this mark
            _MON.set_local_events(_TOOL, code, 0)
            del state["want"]

    def arm():
        state["armed"] = True
        ev = _MON.events
        _MON.use_tool_id(_TOOL, "simkit-poll-points")
        _MON.register_callback(_TOOL, ev.PY_START, on_start)
        _MON.register_callback(_TOOL, ev.PY_RESUME, on_start)
        _MON.register_callback(_TOOL, ev.C_RETURN, on_c_return)
        _MON.register_callback(_TOOL, ev.JUMP, on_jump)
        _MON.register_callback(_TOOL, ev.INSTRUCTION, on_instr)
        _MON.set_events(_TOOL, ev.PY_START | ev.PY_RESUME | ev.CALL | ev.JUMP)

    def disarm():
        if state["armed"]:
            state["armed"] = False
            ev = _MON.events
            _MON.set_events(_TOOL, 0)
            w = state.pop("want", None)
            if w is not None:
                _MON.set_local_events(_TOOL, w[0], 0)
            for e in (ev.PY_START, ev.PY_RESUME, ev.C_RETURN, ev.JUMP, ev.INSTRUCTION):
                _MON.register_callback(_TOOL, e, None)
            _MON.free_tool_id(_TOOL)

    def local(frame, event, arg):
        if event == "line":
            state["n"] += 1
            if limit and state["n"] == limit and not state["fired"] and not state["armed"]:
                arm()
        return local

    def glob(frame, event, arg):
        if frame.f_code.co_filename.startswith(LIB_ROOT):
            return local
        return None
    state["disarm"] = disarm
    return glob, state


class lib_logging:
    """The calling client has switched the library's logging on (the harness keeps it off
    otherwise): every `PyMatterSim...` logger at the given level, records formatted and written
    (to the null device).  Results must not depend on it."""
    _sink = None

    def __init__(self, level="DEBUG"):
        self.level = level

    def __enter__(self):
        import logging
        if lib_logging._sink is None:
            lib_logging._sink = simio.real_open(os.devnull, "w")
        self.saved = []
        self.was = logging.root.manager.disable
        logging.disable(logging.NOTSET)
        for name, lg in sorted(logging.root.manager.loggerDict.items()):
            if name.startswith("PyMatterSim") and isinstance(lg, logging.Logger):
                self.saved.append((lg, lg.level))
                lg.setLevel(getattr(logging, self.level))
                for h in lg.handlers:
                    if isinstance(h, logging.StreamHandler) and h.stream is not lib_logging._sink:
                        h.setStream(lib_logging._sink)
        return self

    def __exit__(self, *a):
        import logging
        for lg, lv in self.saved:
            lg.setLevel(lv)
        logging.disable(self.was)
        return False


CHUNKS = (8, 24, 64, 256, 8192)
BUFS = (16, 48, 128, 512, 8192)


def file_digest(path):
    try:
        with simio.real_open(path, "rb") as f:
            return hashlib.sha256(f.read()).hexdigest()[:16]
    except FileNotFoundError:
        return "absent"


class WorldBase:
    prop = "C??"

    def __init__(self, ctx, swarm):
        self.ctx = ctx
        self.swarm = swarm
        self.held = []        # [exception object, steps left, description]
        self.acked = {}       # relative path -> digest at acknowledgement
        self.ack_info = {}    # relative path -> short description for violation signatures

    # -- hooks a world may override --------------------------------------------------
    def invariants(self):
        self.check_acked()

    def finish(self):
        # end of run: everything still held is released, acknowledged files must survive it
        if self.held:
            self.release_all()
            self.check_acked()

    def teardown(self):
        self.held = []

    def state_sig(self):
        return ()

    def interleaving_sig(self, ops):
        return tuple((o["op"], o.get("fault", {}).get("kind")) for o in ops)

    def nontrivial(self, ops):
        return len(ops) >= 3

    # -- acknowledged files ------------------------------------------------------------
    def ack(self, rel, info=""):
        self.acked[rel] = file_digest(rel)
        self.ack_info[rel] = info

    def unack(self, rel):
        self.acked.pop(rel, None)
        self.ack_info.pop(rel, None)

    def check_acked(self):
        for rel in sorted(self.acked):
            d = file_digest(rel)
            if d != self.acked[rel]:
                raise Violation(
                    f"{self.prop}/ack-file-changed:{self.ack_info.get(rel, '')}",
                    f"acknowledged file {rel} changed after it was written "
                    f"({self.acked[rel]} -> {d}, now {os.path.getsize(rel) if os.path.exists(rel) else -1} bytes)")

    # -- calls under a fault plan ---------------------------------------------------------
    def call(self, fn, fault=None):
        """Run fn() as one operation.  Returns (result, exc_info, io_summary) where
        exc_info is None or (type name, message); a raised exception object is parked in
        self._last_exc for hold()/drop() so that the *client* decides its lifetime."""
        io = self.ctx.io
        line_fault = fault is not None and fault.get("kind") in LINE_FAULTS
        io.begin_op(None if line_fault else fault)
        refired0 = getattr(io, "refired", 0)
        if fault:
            self.ctx.faults_configured += 1
        res = None
        exc = None
        state = None
        if line_fault:
            tracer, state = line_tracer(fault["at"], alloc=fault["kind"] == "alloc_line")
            sys.settrace(tracer)
        try:
            res = fn()
        except BaseException as e:  # noqa: BLE001
            exc = e
        finally:
            if line_fault:
                sys.settrace(None)
                state["disarm"]()
        nev, dig, fired = io.end_op()
        again = getattr(io, "refired", 0) - refired0
        if again:
            self.ctx.faults_fired["oserror_write_again_same_call"] = self.ctx.faults_fired.get("oserror_write_again_same_call", 0) + again
        if line_fault and state["fired"]:
            fired = (fault["kind"], "line", fault["at"])
        if fired and fired[0] == "yield":
            self.ctx.probe("operation_nested_at_io_event")
            self.ctx.log(f"yield at {fired[1]}#{fired[2]}")
        elif fired:
            self.ctx.faults_fired[fired[0]] = self.ctx.faults_fired.get(fired[0], 0) + 1
            self.ctx.log(f"fault {fired[0]} at {fired[1]}#{fired[2]}")
        elif fault:
            self.ctx.probe("fault_configured_not_fired")
        info = None
        if exc is not None:
            info = (type(exc).__name__, str(exc)[:300])
            self._last_exc = exc
            exc = None
        else:
            self._last_exc = None
        return res, info, (nev, dig, fired)

    # -- another client's operation while this one is inside an I/O call ---------------------
    def nest_plan(self, nest):
        """Plan for self.call: at the nest['at']-th I/O event of the operation the scheduler runs
        nest['op'] (a whole operation of another client, judged as usual) and then lets the
        interrupted I/O call continue."""
        return {"kind": "yield", "at": nest["at"], "run": lambda: self.run_nested(nest["op"])}

    def run_nested(self, inner):
        try:
            d = getattr(self, "do_" + inner["op"])(inner)
            self.ctx.log(f"nested {inner['op']} {d}")
        except Violation as v:
            if getattr(self, "_nested_violation", None) is None:
                self._nested_violation = v          # raised once the enclosing call has returned
        except Exception as e:  # noqa: BLE001 - a refused / failed inner operation must not look like an I/O error of the outer one
            self.ctx.log(f"nested {inner['op']} not run: {type(e).__name__}")
            self.ctx.probe("nested_operation_not_run")

    def raise_nested(self):
        v = getattr(self, "_nested_violation", None)
        if v is not None:
            self._nested_violation = None
            raise v

    @staticmethod
    def in_thread(fn):
        """The client makes the call from a worker thread (started and joined: nothing runs
        concurrently).  Context- and thread-local state - numpy's print options among them -
        starts from its defaults there."""
        import threading

        def run():
            box = {}

            def target():
                try:
                    box["r"] = fn()
                except BaseException as e:  # noqa: BLE001
                    box["e"] = e
            th = threading.Thread(target=target)
            th.start()
            th.join()
            if "e" in box:
                e = box.pop("e")
                raise e
            return box.get("r")
        return run

    def hold_last(self, steps, what=""):
        """The client keeps the exception of the failed call alive for `steps` more steps."""
        if self._last_exc is not None:
            self.held.append([self._last_exc, steps, what])
            self._last_exc = None
            self.ctx.probe("exception_held")

    def drop_last(self):
        """The client lets go of the exception right away: leaked handles are finalised now."""
        self._last_exc = None
        gc.collect()

    def tick_held(self):
        for h in self.held:
            h[1] -= 1

    def due(self):
        return any(h[1] <= 0 for h in self.held)

    def release_due(self):
        keep = [h for h in self.held if h[1] > 0]
        n = len(self.held) - len(keep)
        before = self.ctx.io.fin_events
        self.held = keep
        gc.collect()
        if self.ctx.io.fin_events > before:
            self.ctx.probe("late_finaliser_flushed")
        return n

    def release_all(self):
        for h in self.held:
            h[1] = 0
        return self.release_due()

    # -- dry run in a forked child, on a copy of the sandbox ---------------------------
    def dry_events(self, fn):
        """Number of I/O events fn() issues fault-free, measured in a forked child on a copy
        of the sandbox (the live world is not touched).  -> (events, frame marks)"""
        io = self.ctx.io
        root = self.ctx.root

        def child():
            new = root + "-dry"          # a sibling the engine removes even if this child dies
            shutil.rmtree(new, ignore_errors=True)
            os.makedirs(new)
            try:
                shutil.copytree(root, new, dirs_exist_ok=True)
                os.chdir(new)
                io2 = simio.IOSim(new, chunk=io.chunk, buf=io.buf)
                simio.ACTIVE = io2
                io2.begin_op(None)
                try:
                    fn()
                except BaseException:  # noqa: BLE001
                    pass
                return io2.op_ev
            finally:
                simio.ACTIVE = None
                os.chdir("/")
                shutil.rmtree(new, ignore_errors=True)
        try:
            return forked(child, timeout=60.0)
        except HarnessError:
            # the dry run died (a crash inside repository / peer code): the live call will
            # show it under the journal; place the fault blindly
            self.ctx.probe("dry_run_died")
            return 40

    def dry_lines(self, fn):
        """Number of source lines of the library that fn() executes fault-free (forked child,
        copy of the sandbox): the space of cancellation instants of this operation."""
        root = self.ctx.root

        def child():
            new = root + "-dry"
            shutil.rmtree(new, ignore_errors=True)
            os.makedirs(new)
            try:
                shutil.copytree(root, new, dirs_exist_ok=True)
                os.chdir(new)
                simio.ACTIVE = None
                tracer, state = line_tracer(0)
                sys.settrace(tracer)
                try:
                    fn()
                except BaseException:  # noqa: BLE001
                    pass
                finally:
                    sys.settrace(None)
                return state["n"]
            finally:
                os.chdir("/")
                shutil.rmtree(new, ignore_errors=True)
        try:
            return forked(child, timeout=120.0)
        except HarnessError:
            self.ctx.probe("dry_run_died")
            return 0

    def pick_fault_event(self, rng, nev):
        """Bias towards the last events (close) and otherwise uniform inside the op."""
        if nev <= 1:
            return 1
        r = rng.random()
        if r < 0.2:
            return nev
        if r < 0.3:
            return max(1, nev - 1)
        return rng.randint(1, nev)


def sig_ops(ops, keys):
    return tuple(tuple(o.get(k) if k in o else o.get("args", {}).get(k) for k in keys) for o in ops)
