"""Delta-debugging minimiser over the recorded operation-and-fault list."""
import copy
import time

from .engine import HarnessError, load_world, run_one


def _same(prop, seed, batch, swarm, ops, signature):
    try:
        r = run_one(prop, seed, batch, replay={"swarm": swarm, "ops": ops}, timeout=120.0)
    except HarnessError:
        return None
    v = r.get("violation")
    if v and v["signature"] == signature:
        return r
    return None


def shrink(prop, res, budget_s=60.0, log=None):
    """res: a run result with 'ops', 'swarm', 'violation'.  Returns the result dict of the
    minimised execution (with its own ops / fingerprint)."""
    t0 = time.monotonic()
    seed, batch, swarm = res["seed"], res["batch"], res["swarm"]
    sig = res["violation"]["signature"]
    ops = list(res["ops"])
    best = _same(prop, seed, batch, swarm, ops, sig)
    if best is None:
        return None                       # does not even replay: caller reports a harness error
    tried = 0

    def out_of_time():
        return time.monotonic() - t0 > budget_s

    # 1. ddmin over the operation list (the failing op is last; keep it)
    n = 2
    while len(ops) > 1 and not out_of_time():
        body = ops[:-1]
        size = max(1, len(body) // n)
        reduced = False
        for start in range(0, len(body), size):
            cand = body[:start] + body[start + size:] + [ops[-1]]
            tried += 1
            r = _same(prop, seed, batch, swarm, cand, sig)
            if r is not None:
                ops, best = list(r["ops"]), r
                n = max(n - 1, 2)
                reduced = True
                break
            if out_of_time():
                break
        if not reduced:
            if size == 1:
                break
            n = min(len(body), n * 2)
    # 2. per-operation simplification offered by the world
    World = load_world(prop)
    simplify = getattr(World, "simplify", None)
    if simplify is not None:
        progress = True
        while progress and not out_of_time():
            progress = False
            for i in range(len(ops)):
                for cand_op in simplify(copy.deepcopy(ops[i])):
                    cand = ops[:i] + [cand_op] + ops[i + 1:]
                    tried += 1
                    r = _same(prop, seed, batch, swarm, cand, sig)
                    if r is not None and len(r["ops"]) <= len(ops):
                        ops, best = list(r["ops"]), r
                        progress = True
                        break
                    if out_of_time():
                        break
                if out_of_time():
                    break
    if log:
        log(f"shrink: {len(res['ops'])} -> {len(ops)} ops, {tried} candidates, {time.monotonic() - t0:.1f}s")
    best["shrink_candidates"] = tried
    best["original_nops"] = len(res["ops"])
    return best
