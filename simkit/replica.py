"""Clean-room replica: the same code from the current tree, run with no history.

A `ReplicaServer` is forked at the very start of a run, before the run has executed any
repository code, so its process state is pristine.  For every request it forks a grandchild
from that pristine state, which builds a fresh world in a fresh sandbox directory, replays
the *dependency closure* of one operation (the operations that created its inputs, nothing
else) and executes the operation once.  The live world - same operation on the long-lived
shared objects after an arbitrary history - must produce the same bytes.
"""
import os
import pickle
import select
import shutil
import signal
import struct
import sys
import time as _realtime

from .engine import HarnessError, forked


def _send(fd, obj):
    data = pickle.dumps(obj, protocol=4)
    os.write(fd, struct.pack("<Q", len(data)))
    off = 0
    while off < len(data):
        off += os.write(fd, data[off:off + (1 << 16)])


def _recv(fd, timeout=None):
    def read_n(n):
        chunks = []
        got = 0
        deadline = None if timeout is None else _realtime.monotonic() + timeout
        while got < n:
            if deadline is not None:
                left = deadline - _realtime.monotonic()
                if left <= 0:
                    raise TimeoutError("replica server did not answer")
                ready, _, _ = select.select([fd], [], [], min(left, 5.0))
                if not ready:
                    continue
            b = os.read(fd, min(n - got, 1 << 20))
            if not b:
                raise EOFError("replica pipe closed")
            chunks.append(b)
            got += len(b)
        return b"".join(chunks)
    (n,) = struct.unpack("<Q", read_n(8))
    return pickle.loads(read_n(n))


class ReplicaServer:
    def __init__(self, handler, root):
        """handler(request, sandbox_dir) -> response; runs in a grandchild of the server."""
        self.root = root
        c2s_r, c2s_w = os.pipe()
        s2c_r, s2c_w = os.pipe()
        sys.stdout.flush()
        sys.stderr.flush()
        pid = os.fork()
        if pid == 0:
            code = 0
            try:
                os.close(c2s_w)
                os.close(s2c_r)
                self._serve(handler, c2s_r, s2c_w)
            except BaseException:  # noqa: BLE001
                code = 4
            finally:
                os._exit(code)
        os.close(c2s_r)
        os.close(s2c_w)
        self.pid = pid
        self.tx = c2s_w
        self.rx = s2c_r
        self.requests = 0

    def _serve(self, handler, rx, tx):
        k = 0
        while True:
            try:
                req = _recv(rx)
            except EOFError:
                return
            if req is None:
                return
            k += 1
            box = f"{self.root}-rep"
            shutil.rmtree(box, ignore_errors=True)
            os.makedirs(box)
            try:
                out = ("ok", forked(lambda: handler(req, box), timeout=req.get("timeout", 120.0)))
            except HarnessError as e:
                out = ("harness", str(e)[:3000])
            finally:
                shutil.rmtree(box, ignore_errors=True)
            _send(tx, out)

    def request(self, req, timeout=150.0):
        self.requests += 1
        _send(self.tx, req)
        try:
            tag, val = _recv(self.rx, timeout=timeout)
        except (TimeoutError, EOFError) as e:
            raise HarnessError(f"replica: {e}")
        if tag != "ok":
            raise HarnessError("replica: " + val)
        return val

    def close(self):
        try:
            _send(self.tx, None)
        except OSError:
            pass
        for fd in (self.tx, self.rx):
            try:
                os.close(fd)
            except OSError:
                pass
        try:
            deadline = _realtime.monotonic() + 5.0
            while _realtime.monotonic() < deadline:
                p, _ = os.waitpid(self.pid, os.WNOHANG)
                if p:
                    return
                _realtime.sleep(0.01)
            os.kill(self.pid, signal.SIGKILL)
            os.waitpid(self.pid, 0)
        except (ChildProcessError, ProcessLookupError):
            pass
